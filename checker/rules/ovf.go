package rules

// R-OVF — the overflow guards of the unsigned multiply-add accumulators in strconv (ParseInt, ParseUint, ParseFloat).
//
// The property (C14) says: the integer parsers return the exact value and (0,0) on overflow. A necessary structural
// condition, decided here for every argument: the accumulation `n = n*K + d` never wraps, no product evaluated inside a
// guard wraps either, the value stays within the limit L of the function (2^63 for ParseInt, 2^64-1 for ParseUint and
// ParseFloat's mantissa), and — in the other direction — a digit is refused only when accepting it would exceed L.
//
// Method (no execution, no solver): interval reasoning with exact big integers over SSA values plus the order facts
// established by the conditional branches that dominate a block. Terms are compared structurally (go/ssa has no CSE:
// the n*10 of the guard and the n*10 of the body are different instructions of the same pure expression), so the fact
// `n*10 <= L - d` taken from the false edge of `L - d < n*10` bounds the later sum `n*10 + d` by L. Facts are about SSA
// values, which never change, and a fact is used only in blocks dominated by the edge that established it.
//
// Not decided here: the signed accumulator of ParseNumber (its digit carries the sign; repeated loads of b[n]), the
// counted accumulator of ParseDecimal (18 digits by count, not by value), the sign handling after the loop of ParseInt.

import (
	"fmt"
	"go/constant"
	"go/token"
	"go/types"
	"math/big"
	"sort"

	"golang.org/x/tools/go/ssa"

	"verif/checker/core"
)

func init() {
	register(&Rule{ID: "R-OVF", Props: []string{"C14"}, Doc: "no multiply-add of the unsigned accumulators of ParseInt/ParseUint/ParseFloat wraps, the value stays within the function's limit, and a digit is refused only when it would exceed the limit (intervals + dominating order facts over SSA)", Run: runOvf})
}

type ovfSpec struct {
	name  string
	limit *big.Int // the largest value the accumulator may reach
	conv  bool     // the accumulator is converted to int64 after the loop: judged path by path
	exact bool     // every refusal of a digit needs a proof of overflow (ParseFloat may truncate early: its tolerance allows it)
}

// accumulators that are limited by a digit count, not by a comparison of the value: outside this domain
var ovfCounted = map[string]string{
	"ParseDecimal": "not decided: ParseDecimal accumulates at most 18 significant digits by count (i-start < 18), which keeps n below 10^18 < 2^64; a count-based argument is outside the value domain of this rule",
}

func pow2(n uint) *big.Int { return new(big.Int).Lsh(big.NewInt(1), n) }

func runOvf(r *core.Run) {
	max64 := new(big.Int).Sub(pow2(64), big.NewInt(1))
	specs := map[string]ovfSpec{
		"ParseInt":   {"ParseInt", pow2(63), true, true},
		"ParseUint":  {"ParseUint", max64, false, true},
		"ParseFloat": {"ParseFloat", max64, false, false},
	}
	pkg := r.Prog.SSAPkg("strconv")
	if pkg == nil {
		r.BrokenAnchor("package strconv")
		return
	}
	for name := range specs {
		if fn, ok := pkg.Members[name].(*ssa.Function); !ok || len(fn.Blocks) == 0 {
			r.BrokenAnchor("strconv." + name)
		}
	}
	// every function of the package is scanned: the accumulation may live in a helper (scanUint, addDigit); the limits
	// of the three named parsers apply where the accumulation is written in the parser itself
	var names []string
	for name, m := range pkg.Members {
		if fn, ok := m.(*ssa.Function); ok && len(fn.Blocks) > 0 {
			names = append(names, name)
		}
	}
	sort.Strings(names)
	total := 0
	for _, name := range names {
		fn := pkg.Members[name].(*ssa.Function)
		sp, ok := specs[name]
		if !ok {
			sp = ovfSpec{name: name, limit: max64, conv: true}
		}
		total += ovfFunc(r, pkg, fn, sp)
	}
	r.Count("functions of strconv scanned", len(names))
	r.Floor("multiply-add accumulation steps in package strconv", total, 1)
}

// ---------------------------------------------------------------- facts

// an ovfFact says lhs <= rhs (or lhs < rhs) as unsigned machine values
type ovfFact struct {
	lhs, rhs ssa.Value
	strict   bool
}

type ovfCtx struct {
	pkg         *ssa.Package
	depth       int
	condDepth   int
	lits        map[string]bool             // truth values of plain conditions known on the path being read
	override    map[*ssa.Parameter]*big.Int // a parameter fixed to the constant one call site passes on one path
	opaqueSteps string                      // some accumulation of the function sits under a guard computed by a call
	opaqueArg   string                      // set when a parameter's range could not be read because a call site passes the result of a call
	fn          *ssa.Function
	facts       map[*ssa.BasicBlock][]ovfFact
	terms       map[ssa.Value]string
	visiting    map[*ssa.Phi]int // arithmetic depth (+1) at which the phi's evaluation started
	arith       int
}

func isUnsigned(t types.Type) bool {
	b, ok := t.Underlying().(*types.Basic)
	return ok && b.Info()&types.IsUnsigned != 0
}

func typeMax(t types.Type) *big.Int {
	b, ok := t.Underlying().(*types.Basic)
	if !ok {
		return nil
	}
	switch b.Kind() {
	case types.Uint8:
		return big.NewInt(255)
	case types.Uint16:
		return big.NewInt(65535)
	case types.Uint32:
		return new(big.Int).Sub(pow2(32), big.NewInt(1))
	case types.Uint64:
		return new(big.Int).Sub(pow2(64), big.NewInt(1))
	}
	return nil // uint/uintptr (size depends on the target) and signed types: not handled
}

func ovfConst(v ssa.Value) *big.Int {
	c, ok := v.(*ssa.Const)
	if !ok || c.Value == nil {
		return nil
	}
	iv := constant.ToInt(c.Value)
	if iv.Kind() != constant.Int {
		return nil
	}
	n, ok := new(big.Int).SetString(iv.ExactString(), 10)
	if !ok {
		return nil
	}
	return n
}

// term gives a canonical spelling of a pure expression tree; anything that is not a pure operator is a leaf named by its
// SSA register (unique within the function).
func (c *ovfCtx) term(v ssa.Value) string {
	if s, ok := c.terms[v]; ok {
		return s
	}
	var s string
	switch x := v.(type) {
	case *ssa.Const:
		if n := ovfConst(x); n != nil {
			s = "#" + n.String()
		} else {
			s = "#?" + x.String()
		}
	case *ssa.BinOp:
		a, b := c.term(x.X), c.term(x.Y)
		switch x.Op {
		case token.ADD, token.MUL, token.AND, token.OR, token.XOR:
			if b < a {
				a, b = b, a
			}
		}
		s = "(" + a + " " + x.Op.String() + ":" + x.Type().String() + " " + b + ")"
	case *ssa.Convert:
		s = "conv:" + x.Type().String() + "(" + c.term(x.X) + ")"
	case *ssa.ChangeType:
		s = c.term(x.X)
	default:
		s = "%" + v.Name()
	}
	c.terms[v] = s
	return s
}

// factsAt collects the order facts of the branch edges that dominate b.
func (c *ovfCtx) factsAt(b *ssa.BasicBlock) []ovfFact {
	if f, ok := c.facts[b]; ok {
		return f
	}
	var out []ovfFact
	type ct struct {
		cond  ssa.Value
		truth bool
	}
	var conds []ct
	for cur := b; cur.Idom() != nil; cur = cur.Idom() {
		d := cur.Idom()
		iff, ok := d.Instrs[len(d.Instrs)-1].(*ssa.If)
		if !ok || d.Succs[0] == d.Succs[1] {
			continue
		}
		for k := 0; k < 2; k++ {
			s := d.Succs[k]
			if len(s.Preds) == 1 && s.Dominates(b) {
				conds = append(conds, ct{iff.Cond, k == 0})
			}
		}
	}
	// the truth values of the plain conditions first: they decide which edge of a materialised && / || was taken
	saved := c.lits
	c.lits = map[string]bool{}
	for k, v := range saved {
		c.lits[k] = v
	}
	for _, x := range conds {
		if key, tr, ok := c.literal(x.cond, x.truth); ok {
			c.lits[key] = tr
		}
	}
	for _, x := range conds {
		out = append(out, c.condFacts(x.cond, x.truth)...)
	}
	c.lits = saved
	c.facts[b] = out
	return out
}

// literal normalises a plain condition (no phi) to a key and a truth value: `!c`, `a != b` and `a == b` share keys.
func (c *ovfCtx) literal(cond ssa.Value, truth bool) (string, bool, bool) {
	for {
		un, ok := cond.(*ssa.UnOp)
		if !ok || un.Op != token.NOT {
			break
		}
		cond, truth = un.X, !truth
	}
	if bo, ok := cond.(*ssa.BinOp); ok && (bo.Op == token.EQL || bo.Op == token.NEQ) {
		a, b := c.term(bo.X), c.term(bo.Y)
		if b < a {
			a, b = b, a
		}
		if bo.Op == token.NEQ {
			truth = !truth
		}
		return "eq(" + a + "," + b + ")", truth, true
	}
	return c.term(cond), truth, true
}

// condFacts turns a comparison taken with the given truth value into facts.
func (c *ovfCtx) condFacts(cond ssa.Value, truth bool) []ovfFact {
	switch x := cond.(type) {
	case *ssa.UnOp:
		if x.Op == token.NOT {
			return c.condFacts(x.X, !truth)
		}
	case *ssa.Phi:
		// a materialised || or && (tagless switch cases, conditions stored in a variable): the edges that carry the
		// constant opposite to `truth` are excluded; if one edge remains, its value has the truth value and the facts
		// of the block it comes from hold (that block was left immediately before)
		if c.condDepth > 6 {
			return nil
		}
		rem := -1
		for i, e := range x.Edges {
			if k, ok := e.(*ssa.Const); ok && k.Value != nil && k.Value.Kind() == constant.Bool {
				if constant.BoolVal(k.Value) != truth {
					continue
				}
				// the constant itself has the wanted value: nothing follows — unless the edge that carries it is
				// known not to have been taken (its short-circuit test has the other truth value on this path)
				p := x.Block().Preds[i]
				if iff, ok := p.Instrs[len(p.Instrs)-1].(*ssa.If); ok && p.Succs[0] != p.Succs[1] {
					if key, tr, ok := c.literal(iff.Cond, p.Succs[0] == x.Block()); ok {
						if known, ok := c.lits[key]; ok && known != tr {
							continue
						}
					}
				}
				return nil
			}
			if rem >= 0 {
				return nil
			}
			rem = i
		}
		if rem < 0 {
			return nil
		}
		c.condDepth++
		out := append([]ovfFact{}, c.factsAt(x.Block().Preds[rem])...)
		out = append(out, c.condFacts(x.Edges[rem], truth)...)
		c.condDepth--
		return out
	case *ssa.BinOp:
		if bt, ok := x.X.Type().Underlying().(*types.Basic); ok && bt.Info()&types.IsBoolean != 0 && (x.Op == token.EQL || x.Op == token.NEQ) {
			for _, pair := range [][2]ssa.Value{{x.X, x.Y}, {x.Y, x.X}} {
				if k, ok := pair[0].(*ssa.Const); ok && k.Value != nil && k.Value.Kind() == constant.Bool {
					want := constant.BoolVal(k.Value) == truth
					if x.Op == token.NEQ {
						want = !want
					}
					return c.condFacts(pair[1], want)
				}
			}
			return nil
		}
		if !isUnsigned(x.X.Type()) {
			return nil
		}
		op := x.Op
		if !truth {
			switch op {
			case token.LSS:
				op = token.GEQ
			case token.LEQ:
				op = token.GTR
			case token.GTR:
				op = token.LEQ
			case token.GEQ:
				op = token.LSS
			case token.EQL:
				op = token.NEQ
			case token.NEQ:
				op = token.EQL
			}
		}
		switch op {
		case token.LSS:
			return []ovfFact{{x.X, x.Y, true}}
		case token.LEQ:
			return []ovfFact{{x.X, x.Y, false}}
		case token.GTR:
			return []ovfFact{{x.Y, x.X, true}}
		case token.GEQ:
			return []ovfFact{{x.Y, x.X, false}}
		case token.EQL:
			return []ovfFact{{x.X, x.Y, false}, {x.Y, x.X, false}}
		}
	}
	return nil
}

// ---------------------------------------------------------------- intervals

func minBig(a, b *big.Int) *big.Int {
	if a.Cmp(b) <= 0 {
		return a
	}
	return b
}
func maxBig(a, b *big.Int) *big.Int {
	if a.Cmp(b) >= 0 {
		return a
	}
	return b
}

// upper returns an upper bound of the machine value of v (an unsigned integer) wherever the facts hold; nil when the
// type is not handled. mathUpper(v) in addition says whether that bound also bounds the mathematical (unwrapped) value.
func (c *ovfCtx) upper(v ssa.Value, facts []ovfFact) *big.Int {
	u, _ := c.bound(v, facts)
	return u
}

// bound returns (upper bound of the machine value, upper bound of the exact value computed from the exact values of the
// operands). The operation wraps only if the second exceeds the maximum of the type.
func (c *ovfCtx) bound(v ssa.Value, facts []ovfFact) (*big.Int, *big.Int) {
	if n := ovfConst(v); n != nil {
		return n, n
	}
	tm := typeMax(v.Type())
	if tm == nil {
		return nil, nil
	}
	best := tm
	exact := (*big.Int)(nil)
	vt := c.term(v)
	one := big.NewInt(1)
	for _, f := range facts {
		if c.term(f.lhs) != vt {
			continue
		}
		ru := c.upperNoFact(f.rhs, facts)
		if ru == nil {
			continue
		}
		if f.strict {
			if ru.Sign() == 0 {
				continue
			}
			ru = new(big.Int).Sub(ru, one)
		}
		best = minBig(best, ru)
	}
	if _, isPhi := v.(*ssa.Phi); !isPhi {
		c.arith++
		defer func() { c.arith-- }()
	}
	switch x := v.(type) {
	case *ssa.BinOp:
		xu, yu := c.upper(x.X, facts), c.upper(x.Y, facts)
		if xu == nil || yu == nil {
			break
		}
		switch x.Op {
		case token.MUL:
			exact = new(big.Int).Mul(xu, yu)
			// a <= X / K  gives  a*K <= X
			for _, pair := range [][2]ssa.Value{{x.X, x.Y}, {x.Y, x.X}} {
				k := ovfConst(pair[1])
				if k == nil || k.Sign() <= 0 {
					continue
				}
				at := c.term(pair[0])
				for _, f := range facts {
					if c.term(f.lhs) != at {
						continue
					}
					if q, ok := f.rhs.(*ssa.BinOp); ok && q.Op == token.QUO {
						if k2 := ovfConst(q.Y); k2 != nil && k2.Cmp(k) == 0 {
							if xu2 := c.upperNoFact(q.X, facts); xu2 != nil {
								exact = minBig(exact, xu2)
							}
						}
					}
				}
			}
		case token.ADD:
			exact = new(big.Int).Add(xu, yu)
			vt0 := c.term(v)
			for _, f := range facts {
				// an unsigned sum that is not smaller than one of its operands did not wrap
				if c.term(f.rhs) == vt0 && (c.term(f.lhs) == c.term(x.X) || c.term(f.lhs) == c.term(x.Y)) {
					exact = minBig(exact, tm)
				}
			}
			// a <= (M - b) / K, with M - b not wrapping, bounds a*K + b by M
			for _, pair := range [][2]ssa.Value{{x.X, x.Y}, {x.Y, x.X}} {
				mul, ok := pair[0].(*ssa.BinOp)
				if !ok || mul.Op != token.MUL {
					continue
				}
				for _, mp := range [][2]ssa.Value{{mul.X, mul.Y}, {mul.Y, mul.X}} {
					k := ovfConst(mp[1])
					if k == nil || k.Sign() <= 0 {
						continue
					}
					at, bt := c.term(mp[0]), c.term(pair[1])
					for _, f := range facts {
						if c.term(f.lhs) != at {
							continue
						}
						q, ok := f.rhs.(*ssa.BinOp)
						if !ok || q.Op != token.QUO {
							continue
						}
						if k2 := ovfConst(q.Y); k2 == nil || k2.Cmp(k) != 0 {
							continue
						}
						sub, ok := q.X.(*ssa.BinOp)
						if !ok || sub.Op != token.SUB || c.term(sub.Y) != bt {
							continue
						}
						m, bu := c.upperStruct(sub.X, facts), c.upperStruct(pair[1], facts)
						if m == nil || bu == nil || bu.Cmp(c.lower(sub.X, facts)) > 0 {
							continue
						}
						exact = minBig(exact, m)
					}
				}
			}
			// a <= M - b, with M - b not wrapping, bounds a + b by M
			for _, pair := range [][2]ssa.Value{{x.X, x.Y}, {x.Y, x.X}} {
				at, bt := c.term(pair[0]), c.term(pair[1])
				for _, f := range facts {
					if c.term(f.lhs) != at {
						continue
					}
					sub, ok := f.rhs.(*ssa.BinOp)
					if !ok || sub.Op != token.SUB || c.term(sub.Y) != bt {
						continue
					}
					// M may be a constant or a value bounded from below (a limit parameter): b <= M keeps M - b from wrapping
					m := c.upperStruct(sub.X, facts)
					bu := c.upper(pair[1], facts)
					if m == nil || bu == nil || bu.Cmp(c.lower(sub.X, facts)) > 0 {
						continue
					}
					lim := m
					if f.strict {
						lim = new(big.Int).Sub(m, one)
					}
					exact = minBig(exact, lim)
				}
			}
		case token.SUB:
			yl := c.lower(x.Y, facts)
			xl := c.lower(x.X, facts)
			if xl.Cmp(yu) >= 0 { // cannot wrap
				exact = new(big.Int).Sub(xu, yl)
			}
		case token.QUO:
			if yl := c.lower(x.Y, facts); yl.Sign() > 0 {
				exact = new(big.Int).Quo(xu, yl)
			}
		case token.REM:
			if yu.Sign() > 0 {
				exact = new(big.Int).Sub(yu, one)
			}
		case token.AND:
			exact = minBig(xu, yu)
		}
	case *ssa.Convert:
		if isUnsigned(x.X.Type()) {
			if xu := c.upper(x.X, facts); xu != nil {
				exact = xu
			}
		}
	case *ssa.Parameter:
		if _, hi := c.paramRange(x); hi != nil {
			best = minBig(best, hi)
		}
	case *ssa.Phi:
		if c.visiting[x] != 0 {
			break
		}
		c.visiting[x] = c.arith + 1
		var m *big.Int
		for i, e := range x.Edges {
			if ep, ok := e.(*ssa.Phi); ok && c.visiting[ep] == c.arith+1 {
				// a plain copy of a phi under evaluation, reached through phis only (no arithmetic in between), adds
				// nothing to its bound: the least solution of max-equations
				continue
			}
			eu := c.upper(e, c.factsAt(x.Block().Preds[i]))
			if eu == nil {
				m = nil
				break
			}
			if m == nil {
				m = eu
			} else {
				m = maxBig(m, eu)
			}
		}
		delete(c.visiting, x)
		if m != nil {
			best = minBig(best, m)
		}
	}
	if exact != nil && exact.Cmp(tm) <= 0 {
		// no wrap: machine value and exact value coincide, so a bound on one bounds the other
		best = minBig(best, exact)
		exact = best
	}
	return best, exact
}

// upperNoFact bounds the right-hand side of a fact without consulting facts about itself again (avoids cycles).
func (c *ovfCtx) upperNoFact(v ssa.Value, facts []ovfFact) *big.Int {
	if n := ovfConst(v); n != nil {
		return n
	}
	if x, ok := v.(*ssa.BinOp); ok && x.Op == token.SUB {
		// M - y <= M when it does not wrap (y <= M for every M the minuend can be); when it may wrap nothing is known
		if yu := c.upperStruct(x.Y, facts); yu != nil && yu.Cmp(c.lower(x.X, facts)) <= 0 {
			return c.upperStruct(x.X, facts)
		}
		return typeMax(v.Type())
	}
	return c.upperStruct(v, facts)
}

// upperStruct: a bound from constant facts and conversions only.
func (c *ovfCtx) upperStruct(v ssa.Value, facts []ovfFact) *big.Int {
	if n := ovfConst(v); n != nil {
		return n
	}
	best := typeMax(v.Type())
	if best == nil {
		return nil
	}
	vt := c.term(v)
	for _, f := range facts {
		if c.term(f.lhs) == vt {
			if n := ovfConst(f.rhs); n != nil {
				if f.strict {
					if n.Sign() == 0 {
						continue
					}
					n = new(big.Int).Sub(n, big.NewInt(1))
				}
				best = minBig(best, n)
			}
		}
	}
	switch x := v.(type) {
	case *ssa.Parameter:
		if _, hi := c.paramRange(x); hi != nil {
			best = minBig(best, hi)
		}
	case *ssa.Phi:
		// a value chosen between alternatives before it is used (limit := MaxInt64; if signed { limit++ })
		if c.visiting[x] == 0 {
			c.visiting[x] = -1
			var m *big.Int
			for i, e := range x.Edges {
				eu := c.upperStruct(e, c.factsAt(x.Block().Preds[i]))
				if eu == nil {
					m = nil
					break
				}
				if m == nil || eu.Cmp(m) > 0 {
					m = eu
				}
			}
			delete(c.visiting, x)
			if m != nil {
				best = minBig(best, m)
			}
		}
	case *ssa.Convert:
		if isUnsigned(x.X.Type()) {
			if xu := c.upperStruct(x.X, facts); xu != nil {
				best = minBig(best, xu)
			}
		}
	case *ssa.BinOp:
		if x.Op == token.ADD {
			if xu, yu := c.upperStruct(x.X, facts), c.upperStruct(x.Y, facts); xu != nil && yu != nil {
				if sum := new(big.Int).Add(xu, yu); sum.Cmp(best) <= 0 {
					best = sum
				}
			}
		}
		if x.Op == token.QUO {
			if xu, yl := c.upperStruct(x.X, facts), c.lower(x.Y, facts); xu != nil && yl.Sign() > 0 {
				best = minBig(best, new(big.Int).Quo(xu, yl))
			}
		}
		if x.Op == token.SUB {
			xu, yl, xl, yu := c.upperStruct(x.X, facts), c.lower(x.Y, facts), c.lower(x.X, facts), c.upperStruct(x.Y, facts)
			if xu != nil && yu != nil && xl.Cmp(yu) >= 0 {
				best = minBig(best, new(big.Int).Sub(xu, yl))
			}
		}
	}
	return best
}

// lower returns a lower bound of the machine value of v (0 when nothing is known).
func (c *ovfCtx) lower(v ssa.Value, facts []ovfFact) *big.Int {
	if n := ovfConst(v); n != nil {
		return n
	}
	best := big.NewInt(0)
	if !isUnsigned(v.Type()) {
		return best
	}
	vt := c.term(v)
	for _, f := range facts {
		if c.term(f.rhs) != vt {
			continue
		}
		if n := ovfConst(f.lhs); n != nil {
			if f.strict {
				n = new(big.Int).Add(n, big.NewInt(1))
			}
			best = maxBig(best, n)
		}
	}
	switch x := v.(type) {
	case *ssa.Parameter:
		if lo, _ := c.paramRange(x); lo != nil {
			best = maxBig(best, lo)
		}
	case *ssa.Phi:
		if c.visiting[x] == 0 {
			c.visiting[x] = -1
			var m *big.Int
			for i, e := range x.Edges {
				el := c.lower(e, c.factsAt(x.Block().Preds[i]))
				if m == nil || el.Cmp(m) < 0 {
					m = el
				}
			}
			delete(c.visiting, x)
			if m != nil {
				best = maxBig(best, m)
			}
		}
	case *ssa.Convert:
		if isUnsigned(x.X.Type()) {
			if tm := typeMax(x.Type()); tm != nil {
				if xu := c.upperStruct(x.X, facts); xu != nil && xu.Cmp(tm) <= 0 { // value preserved
					best = maxBig(best, c.lower(x.X, facts))
				}
			}
		}
	case *ssa.BinOp:
		switch x.Op {
		case token.ADD:
			// only when the sum cannot wrap
			xu, yu := c.upperStruct(x.X, facts), c.upperStruct(x.Y, facts)
			if tm := typeMax(x.Type()); tm != nil && xu != nil && yu != nil && new(big.Int).Add(xu, yu).Cmp(tm) <= 0 {
				best = maxBig(best, new(big.Int).Add(c.lower(x.X, facts), c.lower(x.Y, facts)))
			}
		case token.SUB:
			xl, yu := c.lower(x.X, facts), c.upperStruct(x.Y, facts)
			if yu != nil && xl.Cmp(yu) >= 0 {
				best = maxBig(best, new(big.Int).Sub(xl, yu))
			}
		case token.MUL:
			// only when the product cannot wrap
			xu, yu := c.upperStruct(x.X, facts), c.upperStruct(x.Y, facts)
			if tm := typeMax(x.Type()); tm != nil && xu != nil && yu != nil && new(big.Int).Mul(xu, yu).Cmp(tm) <= 0 {
				best = maxBig(best, new(big.Int).Mul(c.lower(x.X, facts), c.lower(x.Y, facts)))
			}
		}
	}
	return best
}

// ---------------------------------------------------------------- the rule

// cyclicPhis returns the phis that lie on a def-use cycle through arithmetic (the accumulators).
func derivesFromPhi(v ssa.Value, seen map[ssa.Value]bool) *ssa.Phi {
	if seen[v] {
		return nil
	}
	seen[v] = true
	switch x := v.(type) {
	case *ssa.Phi:
		return x
	case *ssa.ChangeType:
		return derivesFromPhi(x.X, seen)
	}
	return nil
}

// flowsToPhi: the value is carried into the next iteration (sum or product that ends in a phi), as opposed to a product
// that is only compared inside a guard: a guard may let its own product wrap when another disjunct catches that case.
func flowsToPhi(v ssa.Value, seen map[ssa.Value]bool) bool {
	if seen[v] {
		return false
	}
	seen[v] = true
	refs := v.Referrers()
	if refs == nil {
		return false
	}
	for _, in := range *refs {
		switch x := in.(type) {
		case *ssa.Phi, *ssa.Return:
			return true
		case *ssa.BinOp:
			if (x.Op == token.ADD || x.Op == token.MUL) && flowsToPhi(x, seen) {
				return true
			}
		case *ssa.Convert:
			if flowsToPhi(x, seen) {
				return true
			}
		case *ssa.ChangeType:
			if flowsToPhi(x, seen) {
				return true
			}
		}
	}
	return false
}

func ovfFunc(r *core.Run, pkg *ssa.Package, fn *ssa.Function, sp ovfSpec) int {
	c := &ovfCtx{pkg: pkg, fn: fn, facts: map[*ssa.BasicBlock][]ovfFact{}, terms: map[ssa.Value]string{}, visiting: map[*ssa.Phi]int{}}
	name := "strconv." + sp.name
	// 1. every product of an accumulator phi with a constant (in guards and in the body) and every sum that adds to such a product
	type step struct {
		mul *ssa.BinOp
		add *ssa.BinOp
	}
	var muls []*ssa.BinOp
	mulTerm := map[string]*ssa.BinOp{}
	for _, b := range fn.Blocks {
		for _, in := range b.Instrs {
			x, ok := in.(*ssa.BinOp)
			if !ok || x.Op != token.MUL || typeMax(x.Type()) == nil || typeMax(x.Type()).BitLen() != 64 {
				continue
			}
			var acc ssa.Value
			if ovfConst(x.Y) != nil {
				acc = x.X
			} else if ovfConst(x.X) != nil {
				acc = x.Y
			}
			if acc == nil {
				continue
			}
			if _, isParam := acc.(*ssa.Parameter); !isParam && derivesFromPhi(acc, map[ssa.Value]bool{}) == nil {
				continue
			}
			mulTerm[c.term(x)] = x
			if flowsToPhi(x, map[ssa.Value]bool{}) {
				muls = append(muls, x)
			}
		}
	}
	var steps []step
	for _, b := range fn.Blocks {
		for _, in := range b.Instrs {
			x, ok := in.(*ssa.BinOp)
			if !ok || x.Op != token.ADD || !flowsToPhi(x, map[ssa.Value]bool{}) {
				continue
			}
			for _, o := range []ssa.Value{x.X, x.Y} {
				if m, ok := o.(*ssa.BinOp); ok && mulTerm[c.term(m)] != nil && m.Op == token.MUL {
					steps = append(steps, step{m, x})
				}
			}
		}
	}
	sort.Slice(muls, func(i, j int) bool { return muls[i].Pos() < muls[j].Pos() })
	for i, m := range muls {
		exact := c.boundAtUses(m)
		key := fmt.Sprintf("%s product %d of the accumulator does not wrap", name, i+1)
		tm := typeMax(m.Type())
		if exact == nil {
			r.Unknown(key, m.Pos(), "the operands of the product cannot be bounded")
		} else if why := ovfCounted[sp.name]; why != "" && exact.Cmp(tm) > 0 {
			r.Except(key, m.Pos(), why)
		} else if why := c.opaque(m.Block()); why != "" && exact.Cmp(tm) > 0 {
			r.Except(key, m.Pos(), "not decided: "+why)
		} else {
			r.Check(exact.Cmp(tm) <= 0, key, m.Pos(), fmt.Sprintf("at most %s under the guards that dominate it", exact),
				fmt.Sprintf("the product can reach %s > %s: no guard that dominates it bounds the accumulator tightly enough, so it wraps (a guard evaluated before its own protection, or a weakened limit)", exact, tm))
		}
	}
	for _, s := range steps {
		if why := c.opaque(s.add.Block()); why != "" {
			c.opaqueSteps = why
		}
	}
	for i, s := range steps {
		exact := c.boundAtUses(s.add)
		key := fmt.Sprintf("%s accumulation %d stays within %s", name, i+1, sp.limit)
		if exact == nil {
			r.Unknown(key, s.add.Pos(), "the operands of the sum cannot be bounded")
		} else if why := ovfCounted[sp.name]; why != "" && exact.Cmp(sp.limit) > 0 {
			r.Except(key, s.add.Pos(), why)
		} else if why := c.opaque(s.add.Block()); why != "" && exact.Cmp(sp.limit) > 0 {
			r.Except(key, s.add.Pos(), "not decided: "+why)
		} else {
			r.Check(exact.Cmp(sp.limit) <= 0, key, s.add.Pos(), fmt.Sprintf("n*K+d <= %s under the guards that dominate it", exact),
				fmt.Sprintf("n*K+d can reach %s, beyond the limit %s of %s: the guards that dominate the accumulation do not exclude it", exact, sp.limit, sp.name))
		}
		// 2. a digit is refused only when accepting it would exceed the limit
		if sp.exact {
			ovfRefusals(r, c, sp, s.mul, s.add, i+1)
		}
	}
	if sp.conv {
		ovfConversions(r, c, sp)
	}
	r.Count("accumulator products", len(muls))
	r.Count("accumulation steps", len(steps))
	return len(steps)
}

// ovfRefusals: every conditional branch between the place where the digit is known and the accumulation has an edge that
// leaves without accumulating; on that edge K*n + d > limit must follow from the facts.
func ovfRefusals(r *core.Run, c *ovfCtx, sp ovfSpec, mul, add *ssa.BinOp, idx int) {
	name := "strconv." + sp.name
	var acc, kv ssa.Value = mul.X, mul.Y
	if ovfConst(kv) == nil {
		acc, kv = kv, acc
	}
	k := ovfConst(kv)
	digit := add.X
	if c.term(digit) == c.term(mul) {
		digit = add.Y
	}
	accT := c.term(acc)
	a := add.Block()
	n := 0
	for cur := a; cur.Idom() != nil; cur = cur.Idom() {
		d := cur.Idom()
		iff, ok := d.Instrs[len(d.Instrs)-1].(*ssa.If)
		if !ok {
			continue
		}
		// the digit is known at d: its bounds come from facts, not from its type
		df := c.factsAt(d)
		du := c.upperStruct(digit, df)
		if du == nil || du.Cmp(new(big.Int).Sub(k, big.NewInt(1))) > 0 {
			continue
		}
		var away int
		switch {
		case d.Succs[0].Dominates(a) && len(d.Succs[0].Preds) == 1:
			away = 1
		case d.Succs[1].Dominates(a) && len(d.Succs[1].Preds) == 1:
			away = 0
		default:
			continue
		}
		_ = accT
		n++
		facts := append(append([]ovfFact{}, df...), c.condFacts(iff.Cond, away == 0)...)
		key := fmt.Sprintf("%s accumulation %d: refusal %d of a digit implies overflow", name, idx, n)
		// K*n + d, from lower bounds
		lo := new(big.Int).Add(new(big.Int).Mul(k, c.lower(acc, facts)), c.lower(digit, facts))
		proved := lo.Cmp(sp.limit) > 0
		why := fmt.Sprintf("K*n+d >= %s > %s", lo, sp.limit)
		if !proved {
			// M - d < n*K (M - d not wrapping) gives n*K + d > M; the exact product is at least its machine value
			mt, dt := c.term(mul), c.term(digit)
			for _, f := range facts {
				if !f.strict || c.term(f.rhs) != mt {
					continue
				}
				sub, ok := f.lhs.(*ssa.BinOp)
				if !ok || sub.Op != token.SUB || c.term(sub.Y) != dt {
					continue
				}
				m := ovfConst(sub.X)
				if m == nil || du.Cmp(m) > 0 || m.Cmp(sp.limit) < 0 {
					continue
				}
				proved, why = true, fmt.Sprintf("%s - d < n*K on this edge, so n*K+d > %s >= %s", m, m, sp.limit)
			}
		}
		if !proved {
			mt, dt, at, addT := c.term(mul), c.term(digit), c.term(acc), c.term(add)
			for _, f := range facts {
				if !f.strict {
					continue
				}
				// (M - d) / K < n (M - d not wrapping): n >= floor((M-d)/K) + 1, so K*n > M - d
				if q, ok := f.lhs.(*ssa.BinOp); ok && q.Op == token.QUO && c.term(f.rhs) == at {
					if k2 := ovfConst(q.Y); k2 != nil && k2.Cmp(k) == 0 {
						if sub, ok := q.X.(*ssa.BinOp); ok && sub.Op == token.SUB && c.term(sub.Y) == dt {
							if m := ovfConst(sub.X); m != nil && du.Cmp(m) <= 0 && m.Cmp(sp.limit) >= 0 {
								proved, why = true, fmt.Sprintf("(%s - d)/K < n on this edge, so n*K+d > %s >= %s", m, m, sp.limit)
							}
						}
					}
				}
				// the unsigned sum is smaller than one of its operands: it wrapped, the exact sum exceeds the type
				if c.term(f.lhs) == addT && (c.term(f.rhs) == mt || c.term(f.rhs) == dt) {
					proved, why = true, "the sum is smaller than one of its operands on this edge: it wrapped, so n*K+d > 2^64-1"
				}
			}
		}
		if proved {
			r.OK(key, iff.Cond.Pos(), why)
		} else {
			r.Fail(key, iff.Cond.Pos(), fmt.Sprintf("the branch leaves the digit unaccumulated although K*n+d > %s does not follow from its condition (lower bound %s): a representable value is reported as overflow or truncated", sp.limit, lo))
		}
	}
	r.Count("digit refusals judged", n)
}

var _ = mentionsTerm

func mentionsTerm(c *ovfCtx, v ssa.Value, t string) bool {
	if c.term(v) == t {
		return true
	}
	switch x := v.(type) {
	case *ssa.BinOp:
		return mentionsTerm(c, x.X, t) || mentionsTerm(c, x.Y, t)
	case *ssa.Convert:
		return mentionsTerm(c, x.X, t)
	case *ssa.UnOp:
		return mentionsTerm(c, x.X, t)
	}
	return false
}

// ---------------------------------------------------------------- conversions after the loop

// ovfConversions: every conversion of the accumulator to int64 is exact. int64(n) needs n <= MaxInt64; when the only use
// of the conversion is a negation, n <= 2^63 suffices (-int64(2^63) is MinInt64, the exact value). The branches after
// the loop are correlated (`!neg && MaxInt64 < n` ... `else if neg`), so dominating facts are not enough: every acyclic
// path from the accumulator's block to the conversion is enumerated, a path that takes both truth values of one
// condition is infeasible, and on each remaining path the accumulator is bounded by the inductive bound of its phi and
// the constant comparisons met on the path. (Each block occurs once on such a path, so every SSA value on it has one
// meaning; a cycle between the two blocks leaves the conversion undecided.)
func ovfConversions(r *core.Run, c *ovfCtx, sp ovfSpec) {
	name := "strconv." + sp.name
	maxI := new(big.Int).Sub(pow2(63), big.NewInt(1))
	n := 0
	for _, b := range c.fn.Blocks {
		for _, in := range b.Instrs {
			cv, ok := in.(*ssa.Convert)
			if !ok || !isUnsigned(cv.X.Type()) {
				continue
			}
			tb, ok := cv.Type().Underlying().(*types.Basic)
			if !ok || tb.Kind() != types.Int64 {
				continue
			}
			if call, idx := callResult(cv.X); call != nil {
				c.convOfCallResult(r, sp, cv, call, idx)
				continue
			}
			phi := derivesFromPhi(cv.X, map[ssa.Value]bool{})
			if phi == nil || !phiAccumulates(phi) {
				continue
			}
			n++
			need, what := maxI, "MaxInt64"
			if refs := cv.Referrers(); refs != nil && len(*refs) > 0 {
				allNeg := true
				for _, u := range *refs {
					if un, ok := u.(*ssa.UnOp); !ok || un.Op != token.SUB {
						allNeg = false
					}
				}
				if allNeg {
					need, what = pow2(63), "2^63 (negated)"
				}
			}
			key := fmt.Sprintf("%s conversion %d of the accumulator to int64 is exact", name, n)
			h := phi.Block()
			if !h.Dominates(b) {
				r.Unknown(key, cv.Pos(), "the accumulator's block does not dominate the conversion")
				continue
			}
			ind := c.upper(phi, nil)
			if ind == nil {
				r.Unknown(key, cv.Pos(), "the accumulator cannot be bounded")
				continue
			}
			phiT := c.term(phi)
			type lit struct {
				t     string
				truth bool
			}
			paths, feasible, cyclic := 0, 0, false
			worst := big.NewInt(0)
			worstPath := ""
			onPath := map[*ssa.BasicBlock]bool{}
			var walk func(cur *ssa.BasicBlock, facts []ovfFact, lits []lit, trail string)
			walk = func(cur *ssa.BasicBlock, facts []ovfFact, lits []lit, trail string) {
				if paths > 4096 {
					return
				}
				if cur == h {
					paths++
					seen := map[string]bool{}
					for _, l := range lits {
						if v, ok := seen[l.t]; ok && v != l.truth {
							return // infeasible: one condition, both truth values
						}
						seen[l.t] = l.truth
					}
					feasible++
					ub := ind
					for _, f := range facts {
						if c.term(f.lhs) != phiT {
							continue
						}
						if k := ovfConst(f.rhs); k != nil {
							if f.strict {
								k = new(big.Int).Sub(k, big.NewInt(1))
							}
							ub = minBig(ub, k)
						}
					}
					// n != C met on the path: the bound C tightens to C-1
					for changed := true; changed; {
						changed = false
						for _, l := range lits {
							if !l.truth && l.t == "eq("+minStr("#"+ub.String(), phiT)+","+maxStr("#"+ub.String(), phiT)+")" {
								ub = new(big.Int).Sub(ub, big.NewInt(1))
								changed = true
							}
						}
					}
					if ub.Cmp(worst) > 0 {
						worst, worstPath = ub, trail
					}
					return
				}
				onPath[cur] = true
				for _, p := range cur.Preds {
					if onPath[p] {
						cyclic = true
						continue
					}
					f2, l2, t2 := facts, lits, trail
					if iff, ok := p.Instrs[len(p.Instrs)-1].(*ssa.If); ok && p.Succs[0] != p.Succs[1] {
						truth := p.Succs[0] == cur
						f2 = append(append([]ovfFact{}, facts...), c.condFacts(iff.Cond, truth)...)
						l2 = lits
						if key, tr, ok := c.literal(iff.Cond, truth); ok {
							l2 = append(append([]lit{}, lits...), lit{key, tr})
						}
						t2 = fmt.Sprintf("%s <- b%d[%v]", trail, p.Index, truth)
					}
					if p == h {
						walk(h, f2, l2, t2)
					} else {
						walk(p, f2, l2, t2)
					}
				}
				delete(onPath, cur)
			}
			if b == h {
				worst, feasible, paths = ind, 1, 1
			} else {
				walk(b, nil, nil, fmt.Sprintf("b%d", b.Index))
			}
			switch {
			case cyclic || paths > 4096:
				r.Unknown(key, cv.Pos(), "the blocks between the accumulator and the conversion contain a cycle or too many paths")
			case worst.Cmp(need) <= 0:
				r.OK(key, cv.Pos(), fmt.Sprintf("%d paths, %d feasible; the accumulator is at most %s <= %s on each", paths, feasible, worst, what))
			case c.opaqueSteps != "":
				r.Except(key, cv.Pos(), "not decided: "+c.opaqueSteps)
			default:
				r.Fail(key, cv.Pos(), fmt.Sprintf("on the path %s the accumulator can be as large as %s > %s: the conversion changes the value (a sign-specific limit is missing or attached to the wrong sign)", worstPath, worst, what))
			}
		}
	}
	r.Count("conversions of the accumulator judged", n)
}

// phiAccumulates: some edge of the phi (through further phis) is a sum or product computed from the phi itself.
func phiAccumulates(phi *ssa.Phi) bool {
	seen := map[ssa.Value]bool{}
	var reach func(v ssa.Value, arith bool) bool
	reach = func(v ssa.Value, arith bool) bool {
		if v == phi && arith {
			return true
		}
		if seen[v] {
			return false
		}
		seen[v] = true
		switch x := v.(type) {
		case *ssa.Phi:
			for _, e := range x.Edges {
				if reach(e, arith) {
					return true
				}
			}
		case *ssa.BinOp:
			if x.Op == token.MUL || x.Op == token.ADD {
				return reach(x.X, x.Op == token.MUL || arith) || reach(x.Y, x.Op == token.MUL || arith)
			}
		}
		return false
	}
	for _, e := range phi.Edges {
		if reach(e, false) {
			return true
		}
	}
	return false
}

// ---------------------------------------------------------------- helpers: parameters and opaque guards

// paramRange bounds a parameter of an unexported, never address-taken function by the arguments of its call sites in
// the package (each judged under the facts of its own call site; two levels deep). Anything else: unknown.
func (c *ovfCtx) paramRange(p *ssa.Parameter) (*big.Int, *big.Int) {
	if v, ok := c.override[p]; ok {
		return v, v
	}
	fn := p.Parent()
	if c.pkg == nil || c.depth >= 2 || fn == nil || fn.Object() == nil || fn.Object().Exported() || fn.Signature.Recv() != nil || typeMax(p.Type()) == nil {
		return nil, nil
	}
	idx := -1
	for i, q := range fn.Params {
		if q == p {
			idx = i
		}
	}
	if idx < 0 {
		return nil, nil
	}
	var lo, hi *big.Int
	sites := 0
	for _, m := range c.pkg.Members {
		caller, ok := m.(*ssa.Function)
		if !ok {
			continue
		}
		var cc *ovfCtx
		for _, b := range caller.Blocks {
			for _, in := range b.Instrs {
				var rands [16]*ssa.Value
				for _, op := range in.Operands(rands[:0]) {
					if *op == ssa.Value(fn) {
						if call, ok := in.(ssa.CallInstruction); !ok || call.Common().Value != ssa.Value(fn) {
							return nil, nil // the function is used as a value
						}
					}
				}
				call, ok := in.(ssa.CallInstruction)
				if !ok || call.Common().StaticCallee() != fn {
					continue
				}
				if _, isCall := in.(*ssa.Call); !isCall {
					return nil, nil // go/defer
				}
				if cc == nil {
					cc = &ovfCtx{pkg: c.pkg, depth: c.depth + 1, fn: caller, facts: map[*ssa.BasicBlock][]ovfFact{}, terms: map[ssa.Value]string{}, visiting: map[*ssa.Phi]int{}}
				}
				arg := call.Common().Args[idx]
				if why := reachesCall(arg, map[ssa.Value]bool{}); why != "" {
					c.opaqueArg = fmt.Sprintf("the argument for %s at a call site in %s is computed by %s", p.Name(), caller.Name(), why)
				}
				facts := cc.factsAt(b)
				au, al := cc.upperStruct(arg, facts), cc.lower(arg, facts)
				if au == nil {
					return nil, nil
				}
				sites++
				if lo == nil || al.Cmp(lo) < 0 {
					lo = al
				}
				if hi == nil || au.Cmp(hi) > 0 {
					hi = au
				}
			}
		}
	}
	if sites == 0 {
		return nil, nil
	}
	return lo, hi
}

// opaque says why the guards above a block cannot be read here: a dominating condition is computed by a call.
func (c *ovfCtx) opaque(b *ssa.BasicBlock) string {
	if c.opaqueArg != "" {
		return c.opaqueArg
	}
	for cur := b; cur.Idom() != nil; cur = cur.Idom() {
		d := cur.Idom()
		iff, ok := d.Instrs[len(d.Instrs)-1].(*ssa.If)
		if !ok {
			continue
		}
		if call := reachesCall(iff.Cond, map[ssa.Value]bool{}); call != "" {
			return "a condition that dominates the accumulation is computed by " + call + "; the guard is not read through the call"
		}
	}
	return ""
}

func reachesCall(v ssa.Value, seen map[ssa.Value]bool) string {
	if seen[v] {
		return ""
	}
	seen[v] = true
	switch x := v.(type) {
	case *ssa.Call:
		if _, builtin := x.Call.Value.(*ssa.Builtin); builtin {
			return "" // len, cap, min, max: transparent
		}
		if f := x.Call.StaticCallee(); f != nil {
			return "a call of " + f.Name()
		}
		return "a call"
	case *ssa.Extract:
		return reachesCall(x.Tuple, seen)
	case *ssa.UnOp:
		if x.Op == token.NOT {
			return reachesCall(x.X, seen)
		}
	case *ssa.BinOp:
		// only the boolean structure is followed: a comparison of numbers is readable whatever its operands are
		if bt, ok := x.X.Type().Underlying().(*types.Basic); !ok || bt.Info()&types.IsBoolean == 0 {
			return ""
		}
		if s := reachesCall(x.X, seen); s != "" {
			return s
		}
		return reachesCall(x.Y, seen)
	case *ssa.Phi:
		if bt, ok := x.Type().Underlying().(*types.Basic); !ok || bt.Info()&types.IsBoolean == 0 {
			return ""
		}
		for _, e := range x.Edges {
			if s := reachesCall(e, seen); s != "" {
				return s
			}
		}
	}
	return ""
}

// boundAtUses judges a product or sum where it is carried on, not where it is computed: `n1 := n*10 + d; if n1 > max
// { return 0, 0 }; n = n1` computes a value that may exceed the limit (or wrap) and discards it. The facts are those of
// the edges into a phi and of the returns that the value reaches (through sums and conversions); the weakest bound over
// these uses counts. A value with no such use is judged where it is computed.
func (c *ovfCtx) boundAtUses(v ssa.Value) *big.Int {
	var blocks []*ssa.BasicBlock
	seen := map[ssa.Value]bool{}
	var walk func(x ssa.Value)
	walk = func(x ssa.Value) {
		if seen[x] {
			return
		}
		seen[x] = true
		refs := x.Referrers()
		if refs == nil {
			return
		}
		for _, u := range *refs {
			switch y := u.(type) {
			case *ssa.Phi:
				for i, e := range y.Edges {
					if e == x {
						blocks = append(blocks, y.Block().Preds[i])
					}
				}
			case *ssa.Return:
				blocks = append(blocks, y.Block())
			case *ssa.BinOp:
				if y.Op == token.ADD || y.Op == token.MUL {
					walk(y)
				}
			case *ssa.Convert:
				walk(y)
			case *ssa.ChangeType:
				walk(y)
			}
		}
	}
	walk(v)
	if len(blocks) == 0 {
		blocks = []*ssa.BasicBlock{v.(ssa.Instruction).Block()}
	}
	var worst *big.Int
	for _, b := range blocks {
		_, exact := c.bound(v, c.factsAt(b))
		if exact == nil {
			return nil
		}
		if worst == nil || exact.Cmp(worst) > 0 {
			worst = exact
		}
	}
	return worst
}

func minStr(a, b string) string {
	if a < b {
		return a
	}
	return b
}
func maxStr(a, b string) string {
	if a < b {
		return b
	}
	return a
}

// ---------------------------------------------------------------- conversions of a helper's result

func callResult(v ssa.Value) (*ssa.Call, int) {
	switch x := v.(type) {
	case *ssa.Extract:
		if c, ok := x.Tuple.(*ssa.Call); ok {
			return c, x.Index
		}
	case *ssa.Call:
		return x, 0
	}
	return nil, 0
}

// convOfCallResult: `n, k := parseDigits(b, limit); ... int64(n)`. The helper's result is bounded with its limit
// parameter fixed to the constant this call site passes on the path at hand (a limit chosen per sign is a phi: the edge
// taken on the path decides it), and the conversion is judged on every feasible acyclic path from the function's entry.
// Anything that is not resolved exactly — a limit computed by a call, a loop on the way, a helper that does not
// accumulate — leaves the conversion unjudged (no obligation): only a fully resolved path can be reported.
func (c *ovfCtx) convOfCallResult(r *core.Run, sp ovfSpec, cv *ssa.Convert, call *ssa.Call, idx int) {
	g := call.Call.StaticCallee()
	if g == nil || c.pkg == nil || g.Pkg != c.pkg || g.Object() == nil || g.Object().Exported() || len(g.Blocks) == 0 || g.Signature.Recv() != nil {
		return
	}
	// the helper must carry an unsigned accumulation to that result
	accum := false
	for _, b := range g.Blocks {
		for _, in := range b.Instrs {
			if ret, ok := in.(*ssa.Return); ok && idx < len(ret.Results) {
				if ph := derivesFromPhi(ret.Results[idx], map[ssa.Value]bool{}); ph != nil && phiAccumulates(ph) {
					accum = true
				}
			}
		}
	}
	if !accum {
		return
	}
	maxI := new(big.Int).Sub(pow2(63), big.NewInt(1))
	need, what := maxI, "MaxInt64"
	if refs := cv.Referrers(); refs != nil && len(*refs) > 0 {
		allNeg := true
		for _, u := range *refs {
			if un, ok := u.(*ssa.UnOp); !ok || un.Op != token.SUB {
				allNeg = false
			}
		}
		if allNeg {
			need, what = pow2(63), "2^63 (negated)"
		}
	}
	type lit struct {
		cond  ssa.Value
		truth bool
	}
	entry := c.fn.Blocks[0]
	ok := true
	paths, feasible := 0, 0
	worst := big.NewInt(0)
	worstPath := ""
	onPath := map[*ssa.BasicBlock]bool{}
	var walk func(cur *ssa.BasicBlock, chain []*ssa.BasicBlock, lits []lit, facts []ovfFact)
	// resolve a value on a path given as the chain of blocks from the conversion back to the entry
	var resolve func(v ssa.Value, chain []*ssa.BasicBlock, depth int) *big.Int
	resolve = func(v ssa.Value, chain []*ssa.BasicBlock, depth int) *big.Int {
		if depth > 8 {
			return nil
		}
		if k := ovfConst(v); k != nil {
			return k
		}
		switch x := v.(type) {
		case *ssa.Phi:
			for i, b := range chain {
				if b == x.Block() && i+1 < len(chain) {
					for j, p := range b.Preds {
						if p == chain[i+1] {
							return resolve(x.Edges[j], chain, depth+1)
						}
					}
				}
			}
		case *ssa.BinOp:
			a, b := resolve(x.X, chain, depth+1), resolve(x.Y, chain, depth+1)
			tm := typeMax(x.Type())
			if a == nil || b == nil || tm == nil {
				return nil
			}
			switch x.Op {
			case token.ADD:
				if s := new(big.Int).Add(a, b); s.Cmp(tm) <= 0 {
					return s
				}
			case token.SUB:
				if a.Cmp(b) >= 0 {
					return new(big.Int).Sub(a, b)
				}
			}
		}
		return nil
	}
	walk = func(cur *ssa.BasicBlock, chain []*ssa.BasicBlock, lits []lit, facts []ovfFact) {
		if !ok || paths > 1024 {
			return
		}
		chain = append(chain, cur)
		if cur == entry {
			paths++
			seen := map[string]bool{}
			for _, l := range lits {
				// a boolean phi (neg := false; if ... { neg = b[0] == '-' }) means, on this path, the value of the edge taken
				cond, truth := l.cond, l.truth
				for d := 0; d < 8; d++ {
					if un, isNot := cond.(*ssa.UnOp); isNot && un.Op == token.NOT {
						cond, truth = un.X, !truth
						continue
					}
					ph, isPhi := cond.(*ssa.Phi)
					if !isPhi {
						break
					}
					var next ssa.Value
					for i, b := range chain {
						if b == ph.Block() && i+1 < len(chain) {
							for j, p := range b.Preds {
								if p == chain[i+1] {
									next = ph.Edges[j]
								}
							}
						}
					}
					if next == nil {
						break
					}
					cond = next
				}
				if k, isConst := cond.(*ssa.Const); isConst && k.Value != nil && k.Value.Kind() == constant.Bool {
					if constant.BoolVal(k.Value) != truth {
						return // infeasible
					}
					continue
				}
				key, tr, good := c.literal(cond, truth)
				if !good {
					continue
				}
				if v, dup := seen[key]; dup && v != tr {
					return
				}
				seen[key] = tr
			}
			feasible++
			over := map[*ssa.Parameter]*big.Int{}
			for i, a := range call.Call.Args {
				if i >= len(g.Params) || typeMax(g.Params[i].Type()) == nil {
					continue
				}
				k := resolve(a, chain, 0)
				if k == nil {
					ok = false
					return
				}
				over[g.Params[i]] = k
			}
			gc := &ovfCtx{pkg: c.pkg, fn: g, facts: map[*ssa.BasicBlock][]ovfFact{}, terms: map[ssa.Value]string{}, visiting: map[*ssa.Phi]int{}, override: over}
			ub := big.NewInt(0)
			for _, b := range g.Blocks {
				if ret, isRet := b.Instrs[len(b.Instrs)-1].(*ssa.Return); isRet && idx < len(ret.Results) {
					u := gc.upper(ret.Results[idx], gc.factsAt(b))
					if u == nil {
						ok = false
						return
					}
					ub = maxBig(ub, u)
				}
			}
			// comparisons of the result with constants met on the path (`MaxInt64 < n` refused after the call)
			xt := c.term(cv.X)
			for _, f := range facts {
				if c.term(f.lhs) != xt {
					continue
				}
				if k := ovfConst(f.rhs); k != nil {
					if f.strict {
						k = new(big.Int).Sub(k, big.NewInt(1))
					}
					ub = minBig(ub, k)
				}
			}
			// n != C met on the path: a bound equal to C tightens by one
			for changed := true; changed; {
				changed = false
				for _, l := range lits {
					cond, truth := l.cond, l.truth
					for {
						un, isNot := cond.(*ssa.UnOp)
						if !isNot || un.Op != token.NOT {
							break
						}
						cond, truth = un.X, !truth
					}
					bo, isBin := cond.(*ssa.BinOp)
					if !isBin || (bo.Op != token.EQL && bo.Op != token.NEQ) {
						continue
					}
					differs := (bo.Op == token.EQL && !truth) || (bo.Op == token.NEQ && truth)
					if !differs {
						continue
					}
					for _, pair := range [][2]ssa.Value{{bo.X, bo.Y}, {bo.Y, bo.X}} {
						if k := ovfConst(pair[1]); k != nil && c.term(pair[0]) == xt && k.Cmp(ub) == 0 && ub.Sign() > 0 {
							ub = new(big.Int).Sub(ub, big.NewInt(1))
							changed = true
						}
					}
				}
			}
			if ub.Cmp(worst) > 0 {
				worst = ub
				worstPath = ""
				for _, b := range chain {
					worstPath += fmt.Sprintf(" b%d", b.Index)
				}
			}
			return
		}
		onPath[cur] = true
		for _, p := range cur.Preds {
			if onPath[p] {
				ok = false // a loop on the way
				break
			}
			l2, f2 := lits, facts
			if iff, isIf := p.Instrs[len(p.Instrs)-1].(*ssa.If); isIf && p.Succs[0] != p.Succs[1] {
				l2 = append(append([]lit{}, lits...), lit{iff.Cond, p.Succs[0] == cur})
				f2 = append(append([]ovfFact{}, facts...), c.condFacts(iff.Cond, p.Succs[0] == cur)...)
			}
			walk(p, chain, l2, f2)
		}
		delete(onPath, cur)
	}
	walk(cv.Block(), nil, nil, nil)
	if !ok || paths > 1024 || feasible == 0 {
		r.Count("conversions of a helper result left unjudged", 1)
		return
	}
	key := fmt.Sprintf("strconv.%s conversion of the result of %s to int64 is exact", sp.name, g.Name())
	if need.Cmp(maxI) > 0 {
		key += " (negated)"
	}
	if worst.Cmp(need) <= 0 {
		r.OK(key, cv.Pos(), fmt.Sprintf("%d paths, %d feasible; with the limit each path passes the result is at most %s <= %s", paths, feasible, worst, what))
	} else {
		r.Fail(key, cv.Pos(), fmt.Sprintf("on the path%s (conversion back to entry) the helper is called with a limit that lets its result reach %s > %s: the conversion changes the value (a per-sign limit reaches the wrong sign)", worstPath, worst, what))
	}
}
