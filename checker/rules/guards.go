package rules

// Guard facts that do not depend on how the code is laid out.
//
// condAtoms decomposes a branch condition into the atomic comparisons that must hold on one of its
// edges, looking through `!`, and through the boolean phis that go/ssa builds for `a && b` / `a || b`
// when the expression is used as a value (the case expression of a tagless switch, a hoisted local).
// guardsAt collects the atoms that hold whenever a block executes (from the dominator tree), and
// holdsAt lifts the question to the call sites of the enclosing function when the block itself is not
// guarded — so that `if state != X { return err }; p.pop()` and a `pop()` helper called only under
// that test are the same thing.

import (
	"go/constant"
	"go/token"
	"go/types"
	"sync"

	"golang.org/x/tools/go/ssa"

	"verif/checker/core"
)

type condAtom struct {
	op   token.Token // EQL NEQ LSS LEQ GTR GEQ, already normalised to "holds"; ILLEGAL for a predicate call
	x, y ssa.Value
	// a module predicate called as the condition (`if z.atEnd(i)`): the facts come from its body (boolCallFacts)
	call  *ssa.Call
	truth bool
}

func negOp(op token.Token) (token.Token, bool) {
	switch op {
	case token.EQL:
		return token.NEQ, true
	case token.NEQ:
		return token.EQL, true
	case token.LSS:
		return token.GEQ, true
	case token.LEQ:
		return token.GTR, true
	case token.GTR:
		return token.LEQ, true
	case token.GEQ:
		return token.LSS, true
	}
	return op, false
}

// condAtoms: atomic comparisons implied by `cond == truth`.
func condAtoms(cond ssa.Value, truth bool, depth int) []condAtom {
	if depth > 6 {
		return nil
	}
	switch c := cond.(type) {
	case *ssa.UnOp:
		if c.Op == token.NOT {
			return condAtoms(c.X, !truth, depth+1)
		}
		if b, ok := cond.Type().Underlying().(*types.Basic); ok && b.Kind() == types.Bool && c.Op == token.MUL {
			return []condAtom{{op: token.EQL, x: cond, y: ssa.NewConst(constant.MakeBool(truth), cond.Type())}}
		}
	case *ssa.BinOp:
		op := c.Op
		if _, isCmp := negOp(op); !isCmp {
			return nil
		}
		if !truth {
			op, _ = negOp(op)
		}
		return []condAtom{{op: op, x: c.X, y: c.Y}}
	case *ssa.Call:
		if f := c.Call.StaticCallee(); f != nil && !c.Call.IsInvoke() && fnPkg(f) != nil && core.InModule(fnPkg(f)) {
			return []condAtom{{op: token.ILLEGAL, x: c, call: c, truth: truth}}
		}
	case *ssa.Phi:
		// a && b as a value: phi(false [a false], b [a true]); true => came through the edge(s) whose operand can be true.
		// a || b as a value: phi(true [a true], b [a false]);  false => came through the edge(s) whose operand can be false.
		var live []int
		for i, e := range c.Edges {
			if k, ok := e.(*ssa.Const); ok && k.Value != nil {
				if k.Value.String() == "true" && !truth || k.Value.String() == "false" && truth {
					continue // this edge cannot produce the required value
				}
			}
			live = append(live, i)
		}
		if len(live) != 1 {
			return nil
		}
		i := live[0]
		out := condAtoms(c.Edges[i], truth, depth+1)
		// reaching the phi through that predecessor also fixes the branch taken there
		pred := c.Block().Preds[i]
		out = append(out, edgeAtoms(pred, c.Block(), depth+1)...)
		out = append(out, guardsAtDepth(pred, depth+1)...)
		return out
	case *ssa.Field, *ssa.Extract, *ssa.Lookup, *ssa.Parameter:
		// a boolean value used as the condition (row.ok, a comma-ok result): value == truth
		if b, ok := cond.Type().Underlying().(*types.Basic); ok && b.Kind() == types.Bool {
			return []condAtom{{op: token.EQL, x: cond, y: ssa.NewConst(constant.MakeBool(truth), cond.Type())}}
		}
	}
	return nil
}

// edgeAtoms: atoms implied by taking the edge pred -> succ.
func edgeAtoms(pred, succ *ssa.BasicBlock, depth int) []condAtom {
	iff, ok := lastInstr(pred).(*ssa.If)
	if !ok || pred.Succs[0] == pred.Succs[1] {
		return nil
	}
	if pred.Succs[0] == succ {
		return condAtoms(iff.Cond, true, depth)
	}
	if pred.Succs[1] == succ {
		return condAtoms(iff.Cond, false, depth)
	}
	return nil
}

// guardsAt: atoms that hold whenever block b executes.
func guardsAt(b *ssa.BasicBlock) []condAtom { return guardsAtDepth(b, 0) }

func guardsAtDepth(b *ssa.BasicBlock, depth int) []condAtom {
	if depth > 6 {
		return nil
	}
	var out []condAtom
	for p := b; p != nil; p = p.Idom() {
		d := p.Idom()
		if d == nil {
			break
		}
		if len(p.Preds) == 1 && p.Preds[0] == d {
			out = append(out, edgeAtoms(d, p, depth+1)...)
		}
	}
	return out
}

// staticCallSites: every static call of fn inside the module.
type callSiteIndex struct {
	sites map[*ssa.Function][]*ssa.Call
}

var (
	callSiteCache = map[*core.Program]*callSiteIndex{}
	callSiteMu    sync.Mutex
)

func callSitesOf(r *core.Run, fn *ssa.Function) []*ssa.Call {
	callSiteMu.Lock()
	defer callSiteMu.Unlock()
	idx := callSiteCache[r.Prog]
	if idx == nil {
		idx = &callSiteIndex{sites: map[*ssa.Function][]*ssa.Call{}}
		for _, f := range allModuleFuncs(r) {
			for _, b := range f.Blocks {
				for _, in := range b.Instrs {
					if c, ok := in.(*ssa.Call); ok {
						if g := c.Call.StaticCallee(); g != nil {
							idx.sites[g] = append(idx.sites[g], c)
						}
					}
				}
			}
		}
		callSiteCache[r.Prog] = idx
	}
	return idx.sites[fn]
}

// holdsAt: does pred hold for some atom whenever `at` executes — in its own function, or, if not, at every
// call site of that function (transitively, bounded)? resolve maps a value of the callee (a parameter) to
// the caller's argument when the question moves to a call site.
func holdsAt(r *core.Run, at ssa.Instruction, pred func(a condAtom, fn *ssa.Function) bool, depth int) bool {
	if depth > 3 {
		return false
	}
	fn := at.Parent()
	for _, a := range guardsAt(at.Block()) {
		if pred(a, fn) {
			return true
		}
	}
	if fn.Signature.Recv() == nil && fn.Object() != nil && fn.Object().Exported() {
		return false // callable from outside the module
	}
	if fn.Object() != nil && fn.Object().Exported() {
		return false
	}
	sites := callSitesOf(r, fn)
	if len(sites) == 0 {
		return false
	}
	for _, c := range sites {
		if !holdsAt(r, c, pred, depth+1) {
			return false
		}
	}
	return true
}

// argOfParam: if v is a parameter of fn, the values passed for it at every static call site.
func argsOfParam(r *core.Run, v ssa.Value) ([]ssa.Value, bool) {
	p, ok := v.(*ssa.Parameter)
	if !ok {
		return nil, false
	}
	fn := p.Parent()
	idx := -1
	for i, q := range fn.Params {
		if q == p {
			idx = i
		}
	}
	sites := callSitesOf(r, fn)
	if idx < 0 || len(sites) == 0 {
		return nil, false
	}
	var out []ssa.Value
	for _, c := range sites {
		if idx >= len(c.Call.Args) {
			return nil, false
		}
		out = append(out, c.Call.Args[idx])
	}
	return out, true
}

// leafValues: the values v can take, looking through φ-nodes, type changes and — for a parameter of an
// unexported function — the arguments at every static call site (transitively, bounded). ok is false when a
// parameter cannot be resolved (exported function, no call sites, depth).
func leafValues(r *core.Run, v ssa.Value, depth int) ([]ssa.Value, bool) {
	if depth > 5 {
		return nil, false
	}
	switch x := v.(type) {
	case *ssa.Phi:
		var out []ssa.Value
		for _, e := range x.Edges {
			l, ok := leafValues(r, e, depth+1)
			if !ok {
				return nil, false
			}
			out = append(out, l...)
		}
		return out, true
	case *ssa.ChangeType:
		return leafValues(r, x.X, depth+1)
	case *ssa.Parameter:
		fn := x.Parent()
		if fn.Object() != nil && fn.Object().Exported() {
			return nil, false
		}
		args, ok := argsOfParam(r, x)
		if !ok {
			return nil, false
		}
		var out []ssa.Value
		for _, a := range args {
			l, ok := leafValues(r, a, depth+1)
			if !ok {
				return nil, false
			}
			out = append(out, l...)
		}
		return out, true
	}
	return []ssa.Value{v}, true
}
