package rules

import (
	"fmt"
	"go/constant"
	"go/token"
	"go/types"
	"sort"
	"strings"

	"golang.org/x/tools/go/ssa"

	"verif/checker/core"
)

func init() {
	register(&Rule{ID: "R-SEEK", Props: []string{"C19"}, Doc: "Seek: target per whence is off / pos+off / len+off and lies in [0,len]", Run: runSeek})
	register(&Rule{ID: "R-EOFSTRICT", Props: []string{"C19"}, Doc: "in-memory Bytes(): io.EOF only when fewer than n bytes remain; slice bounds off:off+n:off+n", Run: runEOFStrict})
	register(&Rule{ID: "R-BITIDX", Props: []string{"C19"}, Doc: "Bitmap reader/writer: end/growth test bounds the byte index actually accessed", Run: runBitIdx})
	register(&Rule{ID: "R-LAYOUT", Props: []string{"C19"}, Doc: "fixed-width reads/writes use the big-/little-endian byte layout with matching width guards", Run: runLayout})
	register(&Rule{ID: "R-READPOS", Props: []string{"C19"}, Doc: "Read/ReadBytes advance pos by len(data); ReadAt does not; first error wins", Run: runReadPos})
}

// pinned returns k when the facts contain atom == k.
func pinned(fs []Fact, atom string) (int64, bool) {
	lo, hi := false, false
	var lov, hiv int64
	for _, f := range fs {
		if f.NE || len(f.L.T) != 1 {
			continue
		}
		c, has := f.L.T[atom]
		if !has {
			continue
		}
		if c == 1 { // atom + C >= 0  -> atom >= -C
			lo, lov = true, -f.L.C
		}
		if c == -1 { // -atom + C >= 0 -> atom <= C
			hi, hiv = true, f.L.C
		}
	}
	if lo && hi && lov == hiv {
		return lov, true
	}
	return 0, false
}

func methodsNamed(r *core.Run, rel, name string) []*ssa.Function {
	sp := r.Prog.SSAPkg(rel)
	if sp == nil {
		return nil
	}
	var out []*ssa.Function
	var names []string
	for n := range sp.Members {
		names = append(names, n)
	}
	sort.Strings(names)
	for _, n := range names {
		t, ok := sp.Members[n].(*ssa.Type)
		if !ok {
			continue
		}
		for _, rt := range []types.Type{types.NewPointer(t.Type()), t.Type()} {
			ms := r.Prog.SSA.MethodSets.MethodSet(rt)
			for i := 0; i < ms.Len(); i++ {
				if ms.At(i).Obj().Name() == name && ms.At(i).Obj().Pkg() == sp.Pkg {
					fn := r.Prog.SSA.MethodValue(ms.At(i))
					if fn != nil && fn.Synthetic == "" && len(fn.Blocks) > 0 {
						dup := false
						for _, o := range out {
							if o == fn {
								dup = true
							}
						}
						if !dup {
							out = append(out, fn)
						}
					}
				}
			}
		}
	}
	return out
}

func recvName(fn *ssa.Function) string {
	if fn.Signature.Recv() == nil {
		return ""
	}
	t := fn.Signature.Recv().Type()
	if p, ok := t.(*types.Pointer); ok {
		t = p.Elem()
	}
	if n, ok := t.(*types.Named); ok {
		return n.Obj().Name()
	}
	return t.String()
}

// ------------------------------------------------------------------ R-SEEK

func runSeek(r *core.Run) {
	seen := 0
	for _, fn := range methodsNamed(r, "", "Seek") {
		sig := fn.Signature
		if sig.Params().Len() != 2 || sig.Results().Len() != 2 {
			continue
		}
		seen++
		recv := fn.Params[0].Name()
		off, wh := fn.Params[1].Name(), fn.Params[2].Name()
		// roles: the position is the receiver field that Seek assigns; the total length is the `<recv>.<field>.Len()`
		// call that appears in its guards
		posAtom, lenAtom := "", ""
		for _, st := range allStores(fn) {
			if fa, ok := st.Addr.(*ssa.FieldAddr); ok && fa.X == ssa.Value(fn.Params[0]) && isIntType(st.Val.Type()) {
				posAtom = canon(st.Addr)
			}
		}
		for _, b := range fn.Blocks {
			for _, in := range b.Instrs {
				if c, ok := in.(*ssa.Call); ok && c.Call.IsInvoke() && c.Call.Method.Name() == "Len" && len(c.Call.Args) == 0 {
					a := canon(c.Call.Value) + ".Len()"
					if strings.HasPrefix(a, recv+".") {
						lenAtom = a
					}
				}
			}
		}
		if posAtom == "" || lenAtom == "" {
			// the work may be split over helper methods (seekTarget / inside / seekTo)
			if seekThroughHelpers(r, fn) {
				continue
			}
			r.Unknown(recvName(fn)+".Seek roles", fn.Pos(), "cannot identify the position field and the total-length call of this Seek method")
			continue
		}
		want := map[int64]Lin{
			0: linAtom(off),
			1: linAtom(posAtom).add(linAtom(off), 1),
			2: linAtom(lenAtom).add(linAtom(off), 1),
		}
		found := map[int64]bool{}
		for _, st := range storesToField(fn, posAtom) {
			fs := blockFacts(st.Block())
			k, ok := pinned(fs, wh)
			key := fmt.Sprintf("%s.Seek store to pos", recvName(fn))
			if !ok {
				// one shared store of a target chosen per whence: pos = phi(target_0, target_1, target_2), range-checked once
				if phi, isPhi := stripConv(st.Val).(*ssa.Phi); isPhi {
					tv := linOf(phi)
					lo := entails(fs, tv)
					hi := entails(fs, linAtom(lenAtom).add(tv, -1))
					if !(lo && hi) {
						// or each target is range-checked in its own branch, before the branches join
						each := true
						for i, e := range phi.Edges {
							ef := edgeFacts(phi.Block().Preds[i], phi.Block())
							ev := linOf(e)
							if !entails(ef, ev) || !entails(ef, linAtom(lenAtom).add(ev, -1)) {
								each = false
							}
						}
						lo, hi = each, each
					}
					r.Check(lo && hi, recvName(fn)+".Seek shared range check", st.Pos(), "0 <= target <= Len() entailed by the guards",
						fmt.Sprintf("the guards %v do not imply 0 <= target <= %s for the position that is stored: a target outside the data is accepted", factStrings(fs), lenAtom))
					for i, e := range phi.Edges {
						ef := edgeFacts(phi.Block().Preds[i], phi.Block())
						kk, pinnedOK := pinned(ef, wh)
						if !pinnedOK {
							r.Unknown(key, st.Pos(), "a target of the shared store is not chosen under a `whence == k` branch")
							continue
						}
						found[kk] = true
						w, known := want[kk]
						kkey := fmt.Sprintf("%s.Seek whence=%d", recvName(fn), kk)
						if !known {
							r.Fail(kkey+" target", st.Pos(), fmt.Sprintf("io.Seeker defines whence 0,1,2 only; a target is chosen under whence == %d", kk))
							continue
						}
						r.Check(linOf(e).equal(w), kkey+" target", st.Pos(), "pos = "+linOf(e).String(),
							fmt.Sprintf("new position is `%s`; io.Seeker requires `%s` for whence %d", linOf(e), w, kk))
					}
					continue
				}
				r.Unknown(key, st.Pos(), "store to pos is not under a `whence == k` branch")
				continue
			}
			key = fmt.Sprintf("%s.Seek whence=%d", recvName(fn), k)
			found[k] = true
			target := linOf(st.Val)
			w, known := want[k]
			if !known {
				r.Fail(key+" target", st.Pos(), fmt.Sprintf("io.Seeker defines whence 0,1,2 only; pos is assigned under whence == %d", k))
				continue
			}
			r.Check(target.equal(w), key+" target", st.Pos(), "pos = "+target.String(),
				fmt.Sprintf("new position is `%s`; io.Seeker requires `%s` for whence %d", target, w, k))
			lo := entails(fs, target)
			hi := entails(fs, linAtom(lenAtom).add(target, -1))
			r.Check(lo && hi, key+" range", st.Pos(), "0 <= target <= Len() entailed by the guards",
				fmt.Sprintf("the guards %v do not imply 0 <= %s <= %s: a target outside the data is accepted (or the accepted range is not the one the assignment uses)", factStrings(fs), target, lenAtom))
		}
		for k := int64(0); k <= 2; k++ {
			r.Check(found[k], fmt.Sprintf("%s.Seek handles whence=%d", recvName(fn), k), fn.Pos(), "", fmt.Sprintf("no assignment to pos under whence == %d", k))
		}
		// result: returns pos after the store
		for _, b := range fn.Blocks {
			if ret, ok := lastInstr(b).(*ssa.Return); ok {
				if c, isC := ret.Results[1].(*ssa.Const); isC && c.IsNil() {
					same := linOf(ret.Results[0]).equal(linAtom(posAtom))
					for _, st := range storesToField(fn, posAtom) {
						if stripConv(st.Val) == stripConv(ret.Results[0]) && (st.Block() == b || st.Block().Dominates(b)) {
							same = true // the value just stored
						}
					}
					r.Check(same, recvName(fn)+".Seek returns new pos", ret.Pos(), "", "successful Seek does not return the new position")
				}
			}
		}
	}
	r.Floor("Seek methods", seen, 1)
}

// seekThroughHelpers decides R-SEEK for a Seek whose store sits in a helper that receives (target, inside) computed
// by another helper: every case of the helper that computes the pair is judged with the facts of that case.
// Returns false if the shape is not of this kind (the caller then reports undecided).
func seekThroughHelpers(r *core.Run, fn *ssa.Function) bool {
	posF, _ := binaryReaderRoles(r)
	if posF == "" || recvName(fn) != "BinaryReader" {
		return false
	}
	recv := fn.Params[0].Name()
	off, wh := fn.Params[1].Name(), fn.Params[2].Name()
	unit := methodUnit(fn)
	var stores []unitSite
	lenAtom := ""
	for _, u := range unit {
		if st, ok := u.in.(*ssa.Store); ok {
			if fa, isFA := st.Addr.(*ssa.FieldAddr); isFA && fieldName(fa.X.Type(), fa.Field) == posF && recvNameOfType(fa.X.Type()) == "BinaryReader" {
				stores = append(stores, u)
			}
		}
		if c, ok := u.in.(*ssa.Call); ok && c.Call.IsInvoke() && c.Call.Method.Name() == "Len" && len(c.Call.Args) == 0 {
			a := canon(c.Call.Value) + ".Len()"
			if i := strings.Index(a, "."); i > 0 {
				lenAtom = recv + a[i:]
			}
		}
	}
	if len(stores) != 1 || lenAtom == "" {
		return false
	}
	st := stores[0].in.(*ssa.Store)
	// the stored value and the flag that guards the store, expressed in Seek's frame
	tv, n1 := valueThrough(st.Val, stores[0].chain)
	tex, ok := tv.(*ssa.Extract)
	if !ok || n1 != 0 {
		return false
	}
	pair, ok := tex.Tuple.(*ssa.Call)
	if !ok {
		return false
	}
	h := pair.Call.StaticCallee()
	if h == nil || len(h.Blocks) == 0 {
		return false
	}
	flagIdx := -1
	for v, truth := range boolKnown(st.Block(), nil) {
		if !truth {
			continue
		}
		fv, n2 := valueThrough(v, stores[0].chain)
		if fex, isEx := fv.(*ssa.Extract); isEx && n2 == 0 && fex.Tuple == ssa.Value(pair) {
			flagIdx = fex.Index
		}
	}
	if flagIdx < 0 {
		return false
	}
	posAtom := recv + "." + posF
	want := map[int64]Lin{
		0: linAtom(off),
		1: linAtom(posAtom).add(linAtom(off), 1),
		2: linAtom(lenAtom).add(linAtom(off), 1),
	}
	found := map[int64]bool{}
	toSeek := func(l Lin) (Lin, bool) { return substParams(l, h, pair.Call.Args) }
	for _, b := range h.Blocks {
		ret, isRet := lastInstr(b).(*ssa.Return)
		if !isRet || tex.Index >= len(ret.Results) || flagIdx >= len(ret.Results) {
			continue
		}
		if k, isK := ret.Results[flagIdx].(*ssa.Const); isK && k.Value != nil && k.Value.String() == "false" {
			continue // a case that never stores
		}
		var fs []Fact
		for _, f := range blockFacts(b) {
			if l, okL := toSeek(f.L); okL {
				fs = append(fs, Fact{L: l, NE: f.NE})
			}
		}
		for _, a := range condAtoms(ret.Results[flagIdx], true, 0) {
			for _, f := range factsOfAtom(a) {
				if l, okL := toSeek(f.L); okL {
					fs = append(fs, Fact{L: l, NE: f.NE})
				}
			}
		}
		fs = strengthen(fs)
		k, pinnedOK := pinned(fs, wh)
		name := recvName(fn)
		if !pinnedOK {
			r.Unknown(name+".Seek store to pos", ret.Pos(), "a (target, inside) pair is not computed under a `whence == k` branch")
			continue
		}
		found[k] = true
		key := fmt.Sprintf("%s.Seek whence=%d", name, k)
		w, known := want[k]
		if !known {
			r.Fail(key+" target", ret.Pos(), fmt.Sprintf("io.Seeker defines whence 0,1,2 only; a target is computed under whence == %d", k))
			continue
		}
		target, okT := toSeek(linOf(ret.Results[tex.Index]))
		r.Check(okT && target.equal(w), key+" target", ret.Pos(), "pos = "+target.String(),
			fmt.Sprintf("new position is `%s`; io.Seeker requires `%s` for whence %d", target, w, k))
		lo := entails(fs, target)
		hi := entails(fs, linAtom(lenAtom).add(target, -1))
		r.Check(lo && hi, key+" range", ret.Pos(), "0 <= target <= Len() entailed by the guards",
			fmt.Sprintf("the guards %v do not imply 0 <= %s <= %s: a target outside the data is accepted (or the accepted range is not the one the assignment uses)", factStrings(fs), target, lenAtom))
	}
	for k := int64(0); k <= 2; k++ {
		r.Check(found[k], fmt.Sprintf("%s.Seek handles whence=%d", recvName(fn), k), fn.Pos(), "", fmt.Sprintf("no assignment to pos under whence == %d", k))
	}
	return true
}

// -------------------------------------------------------------- R-EOFSTRICT

func isEOFValue(v ssa.Value) bool {
	u, ok := v.(*ssa.UnOp)
	if !ok || u.Op != token.MUL {
		return false
	}
	g, ok := u.X.(*ssa.Global)
	return ok && g.Name() == "EOF" && g.Pkg.Pkg.Path() == "io"
}

func runEOFStrict(r *core.Run) {
	seen := 0
	// in-memory range readers: functions of the root package returning ([]byte, error) that take a length and an
	// offset (their last two integer parameters), cut a three-index slice out of a []byte that is a receiver field or
	// a parameter, and can produce io.EOF — the Bytes methods themselves, or a helper they share
	for _, fn := range allModuleFuncs(r) {
		if core.RelPkg(fnPkg(fn)) != "parse" || fn.Synthetic != "" || len(fn.Blocks) == 0 {
			continue
		}
		sig := fn.Signature
		if sig.Results().Len() != 2 || !isSliceLike(sig.Results().At(0).Type()) {
			continue
		}
		var ints []*ssa.Parameter
		for _, p := range fn.Params {
			if b, ok := p.Type().Underlying().(*types.Basic); ok && b.Kind() == types.Int64 {
				ints = append(ints, p)
			}
		}
		if len(ints) < 2 {
			continue
		}
		var sl *ssa.Slice
		hasEOF := false
		for _, b := range fn.Blocks {
			for _, in := range b.Instrs {
				if s, ok := in.(*ssa.Slice); ok && s.Max != nil {
					root := canon(s.X)
					isParam := false
					for _, p := range fn.Params {
						if root == p.Name() {
							isParam = true
						}
					}
					if isParam || (fn.Signature.Recv() != nil && strings.HasPrefix(root, fn.Params[0].Name()+".")) {
						sl = s
					}
				}
				for _, op := range in.Operands(nil) {
					if *op != nil && isEOFValue(*op) {
						hasEOF = true
					}
				}
			}
		}
		if sl == nil || !hasEOF {
			continue
		}
		seen++
		name := fnLabel(fn)
		n, off := ints[len(ints)-2].Name(), ints[len(ints)-1].Name()
		dataLen := "len(" + canon(sl.X) + ")"
		// goal: n - (len - off) - 1 >= 0   (fewer than n bytes remain)
		goal := linAtom(n).add(linAtom(dataLen), -1).add(linAtom(off), 1).add(linConst(1), -1)
		eofSites := 0
		check := func(fs []Fact, pos token.Pos, what string) {
			eofSites++
			r.Check(entails(fs, goal), fmt.Sprintf("%s.Bytes io.EOF %s", name, what), pos, "guards imply remaining < n",
				fmt.Sprintf("io.EOF is produced under guards %v which do not imply `%s - %s < %s` (fewer than n bytes remain): a read that fits exactly, or reads nothing, reports EOF", factStrings(fs), dataLen, off, n))
		}
		for _, b := range fn.Blocks {
			for _, in := range b.Instrs {
				switch x := in.(type) {
				case *ssa.Return:
					if len(x.Results) == 2 && isEOFValue(x.Results[1]) {
						check(blockFacts(b), x.Pos(), "direct return")
					}
				case *ssa.Phi:
					for i, e := range x.Edges {
						if isEOFValue(e) {
							check(edgeFacts(b.Preds[i], b), x.Pos(), fmt.Sprintf("clamp via block %d", b.Preds[i].Index))
						}
					}
				}
			}
		}
		r.Check(eofSites >= 2, name+".Bytes EOF sites", fn.Pos(), "", "expected both the beyond-end and the clamping io.EOF sites")
		// slice bounds: off : off+n' : off+n'
		if sl.Low == nil || sl.High == nil || sl.Max == nil {
			r.Fail(name+".Bytes slice bounds", sl.Pos(), "result is not a full slice expression data[off:off+n:off+n]: append on the result could write into the backing data")
		} else {
			lo := linOf(sl.Low)
			sameHM := stripConv(sl.High) == stripConv(sl.Max) || linOf(sl.High).equal(linOf(sl.Max))
			// the end of the slice: off+n on the full path, len(data) on the clamped one — as a phi of ends, or as off plus a
			// phi of lengths
			leaves := linLeaves(sl.High, 0)
			good := len(leaves) > 0
			full, clamp := false, false
			for _, l := range leaves {
				d := l.add(linAtom(off), -1)
				switch {
				case d.equal(linAtom(n)):
					full = true
				case d.equal(linAtom(dataLen).add(linAtom(off), -1)):
					clamp = true
				default:
					good = false
				}
			}
			var ls []string
			for _, l := range leaves {
				ls = append(ls, l.String())
			}
			r.Check(lo.equal(linAtom(off)) && sameHM && good && full, name+".Bytes slice bounds", sl.Pos(), fmt.Sprintf("[%s : %v : same]", lo, ls),
				fmt.Sprintf("slice bounds are [%s : %v : max equal to high: %v], want [off : off+n : off+n] (with the end clamped to len(data) when fewer than n bytes remain)", lo, ls, sameHM))
			if clamp || len(leaves) > 1 {
				r.Check(good, name+".Bytes clamped length", sl.Pos(), "n or len(data)-off", "the clamped length is neither n nor len(data)-off")
			}
		}
	}
	if seen == 0 {
		seen = eofStrictUnits(r)
	}
	r.Floor("in-memory Bytes implementations", seen, 1)
}

// linThroughChain: a Lin of the innermost frame of chain expressed in the outermost frame.
func linThroughChain(l Lin, chain []*ssa.Call) (Lin, bool) {
	for i := len(chain) - 1; i >= 0; i-- {
		g := chain[i].Call.StaticCallee()
		var ok bool
		l, ok = substParams(l, g, chain[i].Call.Args)
		if !ok {
			return l, false
		}
	}
	return l, true
}

func factsThroughChain(fs []Fact, chain []*ssa.Call) []Fact {
	var out []Fact
	for _, f := range fs {
		if l, ok := linThroughChain(f.L, chain); ok {
			out = append(out, Fact{L: l, NE: f.NE})
		}
	}
	return strengthen(out)
}

// tupleLeaves: the affine values v (a value of the frame `chain` ends in, used in block at) can take, in the outermost
// frame: φ-nodes are expanded, and a result of a tuple-returning unit helper is expanded into the corresponding results
// of its returns — leaving out the returns that disagree with the boolean results of the same call known at `at`.
func tupleLeaves(v ssa.Value, at *ssa.BasicBlock, chain []*ssa.Call, depth int) ([]Lin, bool) {
	if depth > 4 {
		return nil, false
	}
	v, n := valueThrough(stripConv(v), chain)
	chain = chain[:n]
	v = stripConv(v)
	switch x := v.(type) {
	case *ssa.Phi:
		var out []Lin
		for _, e := range x.Edges {
			ls, ok := tupleLeaves(e, nil, chain, depth+1)
			if !ok {
				return nil, false
			}
			out = append(out, ls...)
		}
		return out, true
	case *ssa.BinOp:
		if x.Op == token.ADD || x.Op == token.SUB {
			as, ok1 := tupleLeaves(x.X, at, chain, depth+1)
			bs, ok2 := tupleLeaves(x.Y, at, chain, depth+1)
			if ok1 && ok2 && len(as)*len(bs) <= 8 {
				sign := int64(1)
				if x.Op == token.SUB {
					sign = -1
				}
				var out []Lin
				for _, a := range as {
					for _, b := range bs {
						out = append(out, a.add(b, sign))
					}
				}
				return out, true
			}
		}
	case *ssa.Extract:
		c, ok := x.Tuple.(*ssa.Call)
		if !ok {
			break
		}
		h := c.Call.StaticCallee()
		if h == nil || len(h.Blocks) == 0 || c.Call.IsInvoke() {
			break
		}
		known := map[int]bool{}
		if at != nil {
			for kv, truth := range boolKnown(at, nil) {
				if ex, isEx := kv.(*ssa.Extract); isEx && ex.Tuple == ssa.Value(c) {
					known[ex.Index] = truth
				}
			}
		}
		var out []Lin
		for _, b := range h.Blocks {
			ret, isRet := lastInstr(b).(*ssa.Return)
			if !isRet || x.Index >= len(ret.Results) {
				continue
			}
			skip := false
			for i, truth := range known {
				if k, isK := ret.Results[i].(*ssa.Const); isK && k.Value != nil && k.Value.Kind() == constant.Bool && constant.BoolVal(k.Value) != truth {
					skip = true
				}
			}
			if skip {
				continue
			}
			ls, ok := tupleLeaves(ret.Results[x.Index], nil, append(append([]*ssa.Call{}, chain...), c), depth+1)
			if !ok {
				return nil, false
			}
			out = append(out, ls...)
		}
		return out, len(out) > 0
	}
	l, ok := linThroughChain(linOf(v), chain)
	return []Lin{l}, ok
}

// eofStrictUnits: R-EOFSTRICT for in-memory Bytes methods whose range check, slicing and io.EOF are spread over
// unexported helpers (clampRange / viewOrCopy): every site is judged in the method's own terms.
func eofStrictUnits(r *core.Run) int {
	seen := 0
	for _, fn := range methodsNamed(r, "", "Bytes") {
		sig := fn.Signature
		if sig.Results().Len() != 2 || !isSliceLike(sig.Results().At(0).Type()) || len(fn.Blocks) == 0 {
			continue
		}
		var ints []*ssa.Parameter
		for _, p := range fn.Params {
			if b, ok := p.Type().Underlying().(*types.Basic); ok && b.Kind() == types.Int64 {
				ints = append(ints, p)
			}
		}
		if len(ints) < 2 {
			continue
		}
		unit := methodUnitOpt(fn, true)
		// in-memory: no interface method is invoked anywhere in the unit
		invokes := false
		var slices []unitSite
		for _, u := range unit {
			if c, ok := u.in.(ssa.CallInstruction); ok && c.Common().IsInvoke() {
				invokes = true
			}
			if sl, ok := u.in.(*ssa.Slice); ok && sl.Max != nil {
				root, _ := valueThrough(sl.X, u.chain)
				if strings.HasPrefix(canon(root), fn.Params[0].Name()+".") {
					slices = append(slices, u)
				}
			}
		}
		if invokes || len(slices) != 1 {
			continue
		}
		sl := slices[0].in.(*ssa.Slice)
		root, _ := valueThrough(sl.X, slices[0].chain)
		name := fnLabel(fn)
		n, off := ints[len(ints)-2].Name(), ints[len(ints)-1].Name()
		dataLen := "len(" + canon(root) + ")"
		goal := linAtom(n).add(linAtom(dataLen), -1).add(linAtom(off), 1).add(linConst(1), -1)
		eofSites := 0
		check := func(fs []Fact, pos token.Pos, what string) {
			eofSites++
			r.Check(entails(fs, goal), fmt.Sprintf("%s.Bytes io.EOF %s", name, what), pos, "guards imply remaining < n",
				fmt.Sprintf("io.EOF is produced under guards %v which do not imply `%s - %s < %s` (fewer than n bytes remain): a read that fits exactly, or reads nothing, reports EOF", factStrings(fs), dataLen, off, n))
		}
		for _, u := range unit {
			switch x := u.in.(type) {
			case *ssa.Return:
				for _, rv := range x.Results {
					if isEOFValue(rv) {
						check(factsThroughChain(blockFacts(x.Block()), u.chain), x.Pos(), fmt.Sprintf("return in %s", x.Parent().Name()))
					}
				}
			case *ssa.Phi:
				for i, e := range x.Edges {
					if isEOFValue(e) {
						check(factsThroughChain(edgeFacts(x.Block().Preds[i], x.Block()), u.chain), x.Pos(), fmt.Sprintf("clamp in %s via block %d", x.Parent().Name(), x.Block().Preds[i].Index))
					}
				}
			}
		}
		if eofSites == 0 {
			continue
		}
		seen++
		r.Check(eofSites >= 2, name+".Bytes EOF sites", fn.Pos(), "", "expected both the beyond-end and the clamping io.EOF sites")
		if sl.Low == nil || sl.High == nil {
			r.Fail(name+".Bytes slice bounds", sl.Pos(), "result is not a full slice expression data[off:off+n:off+n]: append on the result could write into the backing data")
			continue
		}
		lo, okLo := tupleLeaves(sl.Low, sl.Block(), slices[0].chain, 0)
		sameHM := stripConv(sl.High) == stripConv(sl.Max) || linOf(sl.High).equal(linOf(sl.Max))
		// known flags at the call sites of the chain apply to the arguments passed there
		var at *ssa.BasicBlock
		if len(slices[0].chain) > 0 {
			at = slices[0].chain[len(slices[0].chain)-1].Block()
		}
		leaves, okHi := tupleLeaves(sl.High, at, slices[0].chain, 0)
		good := okHi && len(leaves) > 0
		full := false
		var ls []string
		for _, l := range leaves {
			ls = append(ls, l.String())
			d := l.add(linAtom(off), -1)
			switch {
			case d.equal(linAtom(n)):
				full = true
			case d.equal(linAtom(dataLen).add(linAtom(off), -1)):
			default:
				good = false
			}
		}
		r.Check(okLo && len(lo) == 1 && lo[0].equal(linAtom(off)) && sameHM && good && full, name+".Bytes slice bounds", sl.Pos(), fmt.Sprintf("[off : %v : same]", ls),
			fmt.Sprintf("slice bounds are [%v : %v : max equal to high: %v], want [off : off+n : off+n] (with the end clamped to len(data) when fewer than n bytes remain)", lo, ls, sameHM))
	}
	return seen
}

// linLeaves: the affine values v can take, expanding phis (also inside one level of + / -).
func linLeaves(v ssa.Value, depth int) []Lin {
	v = stripConv(v)
	if depth > 3 {
		return []Lin{linOf(v)}
	}
	switch x := v.(type) {
	case *ssa.Phi:
		var out []Lin
		for _, e := range x.Edges {
			out = append(out, linLeaves(e, depth+1)...)
		}
		return out
	case *ssa.BinOp:
		if x.Op == token.ADD || x.Op == token.SUB {
			sign := int64(1)
			if x.Op == token.SUB {
				sign = -1
			}
			var out []Lin
			for _, a := range linLeaves(x.X, depth+1) {
				for _, b := range linLeaves(x.Y, depth+1) {
					out = append(out, a.add(b, sign))
				}
			}
			if len(out) <= 8 {
				return out
			}
		}
	}
	return []Lin{linOf(v)}
}

func stripConv(v ssa.Value) ssa.Value {
	for {
		switch x := v.(type) {
		case *ssa.Convert:
			v = x.X
		case *ssa.ChangeType:
			v = x.X
		default:
			return v
		}
	}
}

// ---------------------------------------------------------------- R-BITIDX

// bitIndexForm recognises (atom + k) / 8  or  (atom + k) >> 3 and returns atom, k.
func bitIndexForm(v ssa.Value) (string, int64, bool) {
	v = stripConv(v)
	bo, ok := v.(*ssa.BinOp)
	if !ok {
		// the index computed by a helper of one return statement (i, mask := bitmapIndex(pos)): its result expression
		// with the parameters replaced by the arguments
		if c, ri, isCall := callOfValue(v); isCall {
			g := c.Call.StaticCallee()
			if g != nil && !c.Call.IsInvoke() && len(g.Blocks) == 1 && fnPkg(g) != nil && core.InModule(fnPkg(g)) {
				if ret, isRet := lastInstr(g.Blocks[0]).(*ssa.Return); isRet && ri < len(ret.Results) {
					if hb, isBo := stripConv(ret.Results[ri]).(*ssa.BinOp); isBo {
						d := linOf(hb.Y)
						if d.isConst() && ((hb.Op == token.QUO && d.C == 8) || (hb.Op == token.SHR && d.C == 3)) {
							if n, okS := substParams(linOf(hb.X), g, c.Call.Args); okS && len(n.T) == 1 {
								for a, cf := range n.T {
									if cf == 1 {
										return a, n.C, true
									}
								}
							}
						}
					}
				}
			}
		}
		return "", 0, false
	}
	d := linOf(bo.Y)
	if !d.isConst() {
		return "", 0, false
	}
	if !(bo.Op == token.QUO && d.C == 8) && !(bo.Op == token.SHR && d.C == 3) {
		return "", 0, false
	}
	n := linOf(bo.X)
	if len(n.T) != 1 {
		return "", 0, false
	}
	for a, c := range n.T {
		if c == 1 {
			return a, n.C, true
		}
	}
	return "", 0, false
}

// isRecvByteSliceField: v is (a load of) a []byte field of fn's receiver.
func isRecvByteSliceField(fn *ssa.Function, v ssa.Value) bool {
	u, ok := v.(*ssa.UnOp)
	if !ok || u.Op != token.MUL || len(fn.Params) == 0 {
		return false
	}
	fa, ok := u.X.(*ssa.FieldAddr)
	if !ok {
		return false
	}
	// the field itself, or a field of a struct embedded (by value) in the receiver: w.buf == w.binaryBuffer.buf
	root := fa.X
	for i := 0; i < 3; i++ {
		if inner, isFA := root.(*ssa.FieldAddr); isFA {
			root = inner.X
		}
	}
	if root != ssa.Value(fn.Params[0]) {
		return false
	}
	sl, ok := u.Type().Underlying().(*types.Slice)
	if !ok {
		return false
	}
	b, ok := sl.Elem().Underlying().(*types.Basic)
	return ok && b.Kind() == types.Uint8
}

func runBitIdx(r *core.Run) {
	for _, tc := range []struct {
		typ, meth string
		exact     bool
	}{{"BitmapReader", "Read", true}, {"BitmapWriter", "Write", false}} {
		fn := r.Prog.SSAFunc("", tc.typ, tc.meth)
		if fn == nil {
			r.BrokenAnchor("parse." + tc.typ + "." + tc.meth)
			continue
		}
		key := tc.typ + "." + tc.meth
		// accesses: IndexAddr on the buf field with an index (pos+k')/8
		var accK []int64
		var accAtom string
		var accPos token.Pos
		for _, b := range fn.Blocks {
			for _, in := range b.Instrs {
				if ia, ok := in.(*ssa.IndexAddr); ok && isRecvByteSliceField(fn, ia.X) {
					a, k, ok := bitIndexForm(ia.Index)
					if !ok {
						r.Unknown(key+" access index", ia.Pos(), "byte index is not of the form (pos+k)/8")
						continue
					}
					accAtom, accPos = a, ia.Pos()
					accK = append(accK, k)
				}
			}
		}
		// bound test: len(buf) <= (pos+k)/8
		var testK []int64
		for _, b := range fn.Blocks {
			for _, in := range b.Instrs {
				bo, ok := in.(*ssa.BinOp)
				if !ok || (bo.Op != token.LEQ && bo.Op != token.GTR && bo.Op != token.LSS && bo.Op != token.GEQ) {
					continue
				}
				x, y := bo.X, bo.Y
				op := bo.Op
				if strings.HasPrefix(linOf(y).String(), "len(") {
					x, y = y, x
					op = map[token.Token]token.Token{token.LEQ: token.GEQ, token.GEQ: token.LEQ, token.LSS: token.GTR, token.GTR: token.LSS}[op]
				}
				if !strings.HasPrefix(linOf(x).String(), "len(") {
					continue
				}
				a, k, ok := bitIndexForm(y)
				if !ok || a != accAtom {
					continue
				}
				// len <= (pos+k)/8  (end)  or  len > (pos+k)/8 (in range); strict forms shift k by 8
				switch op {
				case token.LEQ, token.GTR:
					testK = append(testK, k)
				case token.LSS, token.GEQ: // len < idx  <=> len <= idx-1 : not the canonical form
					testK = append(testK, k-8)
				}
			}
		}
		if len(accK) == 0 || len(testK) != 1 {
			r.Unknown(key+" shape", fn.Pos(), fmt.Sprintf("expected one bound test `len(buf) <= (pos+k)/8` and at least one access buf[(pos+k')/8]; found %d tests, %d accesses", len(testK), len(accK)))
			continue
		}
		for _, ak := range accK {
			if tc.exact {
				r.Check(testK[0] == ak, key+" end test bounds the accessed byte", accPos, "",
					fmt.Sprintf("end-of-data is reported when len(buf) <= (pos%+d)/8 but the bit read is in byte (pos%+d)/8: the last bit(s) of the buffer are never delivered (or a byte past the end is read)", testK[0], ak))
			} else {
				r.Check(testK[0] >= ak && testK[0] <= ak+8, key+" growth test covers the accessed byte", accPos, "",
					fmt.Sprintf("buffer grows when len(buf) <= (pos%+d)/8 but the byte written is (pos%+d)/8: index out of range", testK[0], ak))
			}
		}
	}
}

// ---------------------------------------------------------------- R-LAYOUT

// orTerms flattens an OR-tree of  Convert(data[i]) << s  into index->shift.
func orTerms(v ssa.Value, out map[int64]int64, dataName *string) bool {
	v = stripConv(v)
	switch x := v.(type) {
	case *ssa.BinOp:
		if x.Op == token.OR || x.Op == token.ADD {
			return orTerms(x.X, out, dataName) && orTerms(x.Y, out, dataName)
		}
		if x.Op == token.SHL {
			s := linOf(x.Y)
			if !s.isConst() {
				return false
			}
			idx, ok := byteLoadIndex(x.X, dataName)
			if !ok {
				return false
			}
			if _, dup := out[idx]; dup {
				return false
			}
			out[idx] = s.C
			return true
		}
	case *ssa.UnOp:
		idx, ok := byteLoadIndex(x, dataName)
		if !ok {
			return false
		}
		if _, dup := out[idx]; dup {
			return false
		}
		out[idx] = 0
		return true
	}
	return false
}

func byteLoadIndex(v ssa.Value, dataName *string) (int64, bool) {
	v = stripConv(v)
	u, ok := v.(*ssa.UnOp)
	if !ok || u.Op != token.MUL {
		return 0, false
	}
	ia, ok := u.X.(*ssa.IndexAddr)
	if !ok {
		return 0, false
	}
	i := linOf(ia.Index)
	if !i.isConst() {
		return 0, false
	}
	*dataName = ia.X.Name()
	return i.C, true
}

// endianOfCond finds LittleEndian/BigEndian in an interface comparison.
func endianOfCond(v ssa.Value) string {
	bo, ok := v.(*ssa.BinOp)
	if !ok || bo.Op != token.EQL {
		return ""
	}
	for _, side := range []ssa.Value{bo.X, bo.Y} {
		if mi, ok := side.(*ssa.MakeInterface); ok {
			if u, ok := mi.X.(*ssa.UnOp); ok {
				if g, ok := u.X.(*ssa.Global); ok && g.Pkg.Pkg.Path() == "encoding/binary" {
					return g.Name()
				}
			}
		}
	}
	return ""
}

// orderAt: the byte order that holds in block b according to the comparisons of a ByteOrder value with
// binary.LittleEndian / binary.BigEndian that guard it ("" if none; BigEndian is the code's default otherwise).
func orderAt(b *ssa.BasicBlock) string {
	endian := func(v ssa.Value) string {
		if mi, ok := v.(*ssa.MakeInterface); ok {
			if u, ok := mi.X.(*ssa.UnOp); ok {
				if g, ok := u.X.(*ssa.Global); ok && g.Pkg.Pkg.Path() == "encoding/binary" {
					return g.Name()
				}
			}
		}
		return ""
	}
	other := map[string]string{"LittleEndian": "BigEndian", "BigEndian": "LittleEndian"}
	for _, a := range guardsAt(b) {
		e := endian(a.x)
		if e == "" {
			e = endian(a.y)
		}
		if e == "" {
			continue
		}
		switch a.op {
		case token.EQL:
			return e
		case token.NEQ:
			return other[e]
		}
	}
	return ""
}

func layoutName(m map[int64]int64, width int64) string {
	le, be := true, true
	if int64(len(m)) != width {
		return "invalid"
	}
	for i := int64(0); i < width; i++ {
		s, ok := m[i]
		if !ok {
			return "invalid"
		}
		if s != 8*i {
			le = false
		}
		if s != 8*(width-1-i) {
			be = false
		}
	}
	switch {
	case le && be:
		return "both"
	case le:
		return "LittleEndian"
	case be:
		return "BigEndian"
	}
	return "invalid"
}

func isSigned(t types.Type) bool {
	b, ok := t.Underlying().(*types.Basic)
	return ok && b.Info()&types.IsInteger != 0 && b.Info()&types.IsUnsigned == 0
}

// signExtendsUnsigned: fn is `return intN(r.h(W))` where h(width) returns int64(U << k) >> k with k = 64 - 8*width and
// U the call r.g(width) of the unsigned reader that ReadUintW (named unsignedName) returns a conversion of, with the
// same W.
func signExtendsUnsigned(r *core.Run, fn *ssa.Function, width int64, unsignedName string) bool {
	if len(fn.Blocks) != 1 {
		return false
	}
	ret, ok := lastInstr(fn.Blocks[0]).(*ssa.Return)
	if !ok || len(ret.Results) != 1 {
		return false
	}
	hc, ok := stripConv(ret.Results[0]).(*ssa.Call)
	if !ok || hc.Call.IsInvoke() || len(hc.Call.Args) != 2 {
		return false
	}
	h := hc.Call.StaticCallee()
	if k, isK := hc.Call.Args[1].(*ssa.Const); !isK || !ssaIntConst(k) || k.Int64() != width || h == nil || recvName(h) != recvName(fn) || len(h.Blocks) != 1 || len(h.Params) != 2 {
		return false
	}
	hret, ok := lastInstr(h.Blocks[0]).(*ssa.Return)
	if !ok || len(hret.Results) != 1 || !isSigned(hret.Results[0].Type()) {
		return false
	}
	// int64(U << k) >> k
	shr, ok := hret.Results[0].(*ssa.BinOp)
	if !ok || shr.Op != token.SHR {
		return false
	}
	cv, ok := shr.X.(*ssa.Convert)
	if !ok || !isSigned(cv.Type()) {
		return false
	}
	if b, isB := cv.Type().Underlying().(*types.Basic); !isB || b.Kind() != types.Int64 {
		return false
	}
	shl, ok := cv.X.(*ssa.BinOp)
	if !ok || shl.Op != token.SHL || stripConv(shl.Y) != stripConv(shr.Y) {
		return false
	}
	if b, isB := shl.X.Type().Underlying().(*types.Basic); !isB || b.Kind() != types.Uint64 {
		return false
	}
	// k = 64 - 8*width
	kl := linOf(shl.Y)
	wname := h.Params[1].Name()
	if kl.C != 64 || len(kl.T) != 1 || kl.T[wname] != -8 {
		return false
	}
	// U = r.g(width), the reader ReadUintW converts with the same W
	uc, ok := stripConv(shl.X).(*ssa.Call)
	if !ok || uc.Call.IsInvoke() || len(uc.Call.Args) != 2 || uc.Call.Args[1] != ssa.Value(h.Params[1]) {
		return false
	}
	g := uc.Call.StaticCallee()
	uf := r.Prog.SSAFunc("", recvName(fn), unsignedName)
	if g == nil || uf == nil || len(uf.Blocks) != 1 {
		return false
	}
	uret, ok := lastInstr(uf.Blocks[0]).(*ssa.Return)
	if !ok || len(uret.Results) != 1 {
		return false
	}
	ucall, ok := stripConv(uret.Results[0]).(*ssa.Call)
	if !ok || ucall.Call.StaticCallee() != g || len(ucall.Call.Args) != 2 {
		return false
	}
	k2, isK2 := ucall.Call.Args[1].(*ssa.Const)
	return isK2 && ssaIntConst(k2) && k2.Int64() == width
}

func runLayout(r *core.Run) {
	n := layoutReaders(r)
	w24 := 0
	// signed reads are conversions of the unsigned reads of equal width
	for _, w := range []string{"8", "16", "24", "32", "64"} {
		fn := r.Prog.SSAFunc("", "BinaryReader", "ReadInt"+w)
		if fn == nil {
			r.BrokenAnchor("parse.BinaryReader.ReadInt" + w)
			continue
		}
		ok := false
		signExt := false
		if len(fn.Blocks) == 1 {
			if ret, isRet := lastInstr(fn.Blocks[0]).(*ssa.Return); isRet {
				v := stripConv(ret.Results[0])
				// int32(x<<8)>>8 : sign extension of a 24-bit value
				if sh, isSh := v.(*ssa.BinOp); isSh && sh.Op == token.SHR && linOf(sh.Y).isConst() && linOf(sh.Y).C == 8 {
					if cv, isCv := sh.X.(*ssa.Convert); isCv && isSigned(cv.Type()) {
						if shl, isShl := stripConv(cv.X).(*ssa.BinOp); isShl && shl.Op == token.SHL && linOf(shl.Y).isConst() && linOf(shl.Y).C == 8 {
							v = stripConv(shl.X)
							signExt = true
						}
					}
				}
				if c, isCall := v.(*ssa.Call); isCall {
					if f := c.Call.StaticCallee(); f != nil && f.Name() == "ReadUint"+w {
						ok = true
					}
				}
			}
		}
		if !ok {
			// intN(r.readInt(W)) with readInt(width) = int64(r.readUint(width) << (64-8*width)) >> (64-8*width): the general
			// sign extension from bit 8*width-1, over the same unsigned reader ReadUintW itself converts
			if widthBytes, okW := map[string]int64{"8": 1, "16": 2, "24": 3, "32": 4, "64": 8}[w]; okW && signExtendsUnsigned(r, fn, widthBytes, "ReadUint"+w) {
				r.OK("ReadInt"+w+" sign-extends the unsigned read of the same width", fn.Pos(), "through a width-generic helper")
				continue
			}
		}
		if w == "24" {
			r.Check(ok && signExt, "ReadInt24 sign-extends ReadUint24", fn.Pos(), "", "a 24-bit signed value must be sign-extended into int32 (e.g. int32(v<<8)>>8); a plain conversion of the unsigned 24-bit value turns every negative number into a positive one")
		} else {
			r.Check(ok && !signExt, "ReadInt"+w+" converts ReadUint"+w, fn.Pos(), "", "signed read is not a plain conversion of the unsigned read of the same width")
		}
		wf := r.Prog.SSAFunc("", "BinaryWriter", "WriteInt"+w)
		if wf == nil {
			r.BrokenAnchor("parse.BinaryWriter.WriteInt" + w)
			continue
		}
		ok = false
		for _, in := range wf.Blocks[0].Instrs {
			if c, isCall := in.(*ssa.Call); isCall {
				if f := c.Call.StaticCallee(); f != nil && f.Name() == "WriteUint"+w {
					if cv, isConv := c.Call.Args[1].(*ssa.Convert); isConv && cv.X == wf.Params[1] {
						ok = true
					}
				}
			}
		}
		r.Check(ok, "WriteInt"+w+" converts to WriteUint"+w, wf.Pos(), "", "signed write is not a plain conversion to the unsigned write of the same width")
	}
	// writer: WriteUintN uses ByteOrder.AppendUintN of the same width; WriteUint24 explicit layout
	for _, w := range []string{"16", "32", "64"} {
		wf := r.Prog.SSAFunc("", "BinaryWriter", "WriteUint"+w)
		if wf == nil {
			r.BrokenAnchor("parse.BinaryWriter.WriteUint" + w)
			continue
		}
		ok := false
		for _, in := range wf.Blocks[0].Instrs {
			if c, isCall := in.(*ssa.Call); isCall && c.Call.IsInvoke() && c.Call.Method.Name() == "AppendUint"+w {
				if len(c.Call.Args) == 2 && c.Call.Args[1] == wf.Params[1] && isRecvByteSliceField(wf, c.Call.Args[0]) {
					ok = true
				}
			}
		}
		r.Check(ok, "WriteUint"+w+" appends with ByteOrder.AppendUint"+w, wf.Pos(), "", "writer does not call ByteOrder.AppendUint"+w+"(w.buf, v)")
	}
	if wf := r.Prog.SSAFunc("", "BinaryWriter", "WriteUint24"); wf != nil {
		// collect, per branch, stores into the variadic array: index -> shift
		for _, b := range wf.Blocks {
			m := map[int64]int64{}
			for _, in := range b.Instrs {
				st, ok := in.(*ssa.Store)
				if !ok {
					continue
				}
				ia, ok := st.Addr.(*ssa.IndexAddr)
				if !ok {
					continue
				}
				idx := linOf(ia.Index)
				val := stripConv(st.Val)
				shift := int64(0)
				if bo, ok := val.(*ssa.BinOp); ok && bo.Op == token.SHR {
					shift = linOf(bo.Y).C
					val = bo.X
				}
				if val == wf.Params[1] && idx.isConst() {
					m[idx.C] = shift
				}
			}
			if len(m) == 0 {
				continue
			}
			n++
			w24++
			order := orderAt(b)
			if order == "" {
				order = "BigEndian"
			}
			lay := layoutName(m, 3)
			r.Check(lay == order, "WriteUint24 "+order+" layout", wf.Pos(), fmt.Sprint(m), fmt.Sprintf("bytes are emitted as position->shift %v on the %s path, which is %s", m, order, lay))
		}
	} else {
		r.BrokenAnchor("parse.BinaryWriter.WriteUint24")
	}
	if wf := r.Prog.SSAFunc("", "BinaryWriter", "WriteUint24"); wf != nil && w24 < 2 && len(wf.Params) == 2 {
		// the three bytes may be put in order by data flow (a [3]byte filled big-endian, two elements swapped for
		// little-endian, appended in one call): read the appended bytes off the paths of the function (peval.go)
		w24 = 0 // the per-block reading above saw only part of the picture
		p := &peval{r: r, fn: wf, syms: map[*ssa.Parameter]string{wf.Params[1]: "v"}, loops: true}
		st := &peState{env: map[ssa.Value]interface{}{}}
		p.run(st, wf.Blocks[0], nil, 0)
		seen := map[string]bool{}
		for _, pt := range p.paths {
			if p.aborted || pt.outcome != "return" {
				continue
			}
			order := "BigEndian"
			for _, c := range pt.conds {
				if strings.HasPrefix(c.sym, "order=") {
					order = strings.TrimPrefix(c.sym, "order=")
					if c.op == token.NEQ {
						order = map[string]string{"LittleEndian": "BigEndian", "BigEndian": "LittleEndian"}[order]
					}
				}
			}
			m := map[int64]int64{}
			pos := int64(0)
			whole := true
			for _, ev := range pt.events {
				if ev.name != "append" {
					continue
				}
				arr, isArr := ev.args[1].(*pArray)
				if !isArr {
					whole = false
					continue
				}
				for _, e := range arr.e {
					sh, isSh := e.(pShift)
					if !isSh || sh.sym != "v" {
						whole = false
						continue
					}
					m[pos] = sh.k
					pos++
				}
			}
			if !whole || len(m) != 3 || seen[order] {
				continue
			}
			seen[order] = true
			n++
			w24++
			lay := layoutName(m, 3)
			r.Check(lay == order, "WriteUint24 "+order+" layout", wf.Pos(), fmt.Sprint(m), fmt.Sprintf("bytes are emitted as position->shift %v on the %s path, which is %s", m, order, lay))
		}
	}
	r.Check(w24 == 2, "WriteUint24 has an explicit layout per byte order", token.NoPos, "", fmt.Sprintf("found %d explicit 3-byte layouts in WriteUint24 (need one for each byte order): the 24-bit write can no longer be matched against the reader's layout", w24))
	r.Floor("byte-layout expressions", n, 8)
}

// --------------------------------------------------------------- R-READPOS

// binaryReaderRoles: the position field is the integer field that Pos() returns; the error field is the field of type error.
func binaryReaderRoles(r *core.Run) (pos, errf string) {
	if pf := r.Prog.SSAFunc("", "BinaryReader", "Pos"); pf != nil {
		if ret := singleReturn(pf); ret != nil && len(ret.Results) == 1 {
			if u, ok := stripConv(ret.Results[0]).(*ssa.UnOp); ok && u.Op == token.MUL {
				if fa, ok := u.X.(*ssa.FieldAddr); ok {
					pos = fieldName(fa.X.Type(), fa.Field)
				}
			}
		}
		if st, ok := derefType(pf.Params[0].Type()).Underlying().(*types.Struct); ok {
			for i := 0; i < st.NumFields(); i++ {
				if types.Identical(st.Field(i).Type(), types.Universe.Lookup("error").Type()) {
					errf = st.Field(i).Name()
				}
			}
		}
	}
	return
}

// unitSite: an instruction of a method unit together with the chain of call sites (outermost first) that leads from
// the unit's entry method to the function containing it.
type unitSite struct {
	in    ssa.Instruction
	chain []*ssa.Call
}

// methodUnit: fn and the methods of the same receiver type it calls (transitively, depth <= 3), flattened.
func methodUnit(fn *ssa.Function) []unitSite { return methodUnitOpt(fn, false) }

// methodUnitOpt: with plain, unexported package-level helpers of the same package are part of the unit too.
func methodUnitOpt(fn *ssa.Function, plain bool) []unitSite {
	var out []unitSite
	var walk func(f *ssa.Function, chain []*ssa.Call, depth int)
	walk = func(f *ssa.Function, chain []*ssa.Call, depth int) {
		for _, b := range f.Blocks {
			for _, in := range b.Instrs {
				out = append(out, unitSite{in, chain})
				if c, ok := in.(*ssa.Call); ok && depth < 3 {
					g := c.Call.StaticCallee()
					sameRecv := g != nil && g.Signature.Recv() != nil && fn.Signature.Recv() != nil && recvName(g) == recvName(fn) && len(c.Call.Args) > 0 && len(f.Params) > 0 && c.Call.Args[0] == ssa.Value(f.Params[0])
					plainHelper := plain && g != nil && g.Signature.Recv() == nil && fnPkg(g) == fnPkg(fn) && g.Object() != nil && !g.Object().Exported()
					if g != nil && !c.Call.IsInvoke() && len(g.Blocks) > 0 && (sameRecv || plainHelper) {
						walk(g, append(append([]*ssa.Call{}, chain...), c), depth+1)
					}
				}
			}
		}
	}
	walk(fn, nil, 0)
	return out
}

func runReadPos(r *core.Run) {
	posF, errF := binaryReaderRoles(r)
	if posF == "" || errF == "" {
		r.BrokenAnchor("parse.BinaryReader position / error fields (Pos() returns a field; one field of type error)")
		return
	}
	isField := func(addr ssa.Value, name string) bool {
		fa, ok := addr.(*ssa.FieldAddr)
		return ok && fieldName(fa.X.Type(), fa.Field) == name && recvNameOfType(fa.X.Type()) == "BinaryReader"
	}
	for _, tc := range []struct {
		name    string
		advance bool
		setsErr bool
	}{{"Read", true, false}, {"ReadAt", false, false}, {"ReadBytes", true, true}} {
		fn := r.Prog.SSAFunc("", "BinaryReader", tc.name)
		if fn == nil {
			r.BrokenAnchor("parse.BinaryReader." + tc.name)
			continue
		}
		recv := fn.Params[0].Name()
		unit := methodUnit(fn)
		// the one call of the back end
		var bytesCall *ssa.Call
		var bytesChain []*ssa.Call
		nb := 0
		for _, u := range unit {
			if c, ok := u.in.(*ssa.Call); ok && c.Call.IsInvoke() && c.Call.Method.Name() == "Bytes" {
				bytesCall, bytesChain = c, u.chain
				nb++
			}
		}
		if nb != 1 {
			r.Unknown(tc.name+" shape", fn.Pos(), fmt.Sprintf("expected one call of the back end's Bytes in %s and the methods it uses, found %d", tc.name, nb))
			continue
		}
		// offset argument, in the terms of the entry method
		// (a field read through the helper's own receiver — r.pos inside r.next(b, n) — is the entry method's field)
		offArg, inEntry := linThroughChain(linOf(bytesCall.Call.Args[2]), bytesChain)
		if tc.name == "ReadAt" {
			r.Check(inEntry && offArg.equal(linAtom(fn.Params[2].Name())), "ReadAt reads at off", bytesCall.Pos(), "", "ReadAt does not pass its off argument to Bytes")
		} else {
			r.Check(inEntry && offArg.equal(linAtom(recv+"."+posF)), tc.name+" reads at pos", bytesCall.Pos(), "", tc.name+" does not read at the current position")
		}
		// is v the number of bytes the back end returned?
		var isLenOfData func(v ssa.Value, chain []*ssa.Call, depth int) bool
		isLenOfData = func(v ssa.Value, chain []*ssa.Call, depth int) bool {
			if depth > 4 {
				return false
			}
			v, n := valueThrough(stripConv(v), chain)
			chain = chain[:n]
			v = stripConv(v)
			switch x := v.(type) {
			case *ssa.Call:
				if b, ok := x.Call.Value.(*ssa.Builtin); ok && b.Name() == "len" {
					if ex, isEx := x.Call.Args[0].(*ssa.Extract); isEx && ex.Tuple == ssa.Value(bytesCall) && ex.Index == 0 {
						return true
					}
				}
			case *ssa.Extract:
				c, ok := x.Tuple.(*ssa.Call)
				if !ok {
					return false
				}
				g := c.Call.StaticCallee()
				if g == nil || len(g.Blocks) == 0 {
					return false
				}
				nret := 0
				for _, gb := range g.Blocks {
					if ret, isRet := lastInstr(gb).(*ssa.Return); isRet {
						nret++
						if x.Index >= len(ret.Results) || !isLenOfData(ret.Results[x.Index], append(append([]*ssa.Call{}, chain...), c), depth+1) {
							return false
						}
					}
				}
				return nret > 0
			}
			return false
		}
		var posStores []unitSite
		var errStores []unitSite
		for _, u := range unit {
			if st, ok := u.in.(*ssa.Store); ok {
				if isField(st.Addr, posF) {
					posStores = append(posStores, u)
				}
				if isField(st.Addr, errF) {
					errStores = append(errStores, u)
				}
			}
		}
		if !tc.advance {
			r.Check(len(posStores) == 0, tc.name+" leaves pos unchanged", fn.Pos(), "", "io.ReaderAt must not move the position, but pos is assigned")
		} else {
			ok := len(posStores) == 1
			if ok {
				st := posStores[0].in.(*ssa.Store)
				ok = false
				if bo, isBo := stripConv(st.Val).(*ssa.BinOp); isBo && bo.Op == token.ADD {
					for _, pr := range [][2]ssa.Value{{bo.X, bo.Y}, {bo.Y, bo.X}} {
						if u, isU := stripConv(pr[0]).(*ssa.UnOp); isU && u.Op == token.MUL && isField(u.X, posF) {
							if isLenOfData(pr[1], posStores[0].chain, 0) {
								ok = true
							}
						}
					}
				}
			}
			r.Check(ok, tc.name+" advances pos by len(data)", fn.Pos(), "", "pos is not advanced by exactly the number of bytes returned")
		}
		if tc.setsErr {
			ok := len(errStores) == 1
			if ok {
				st := errStores[0].in.(*ssa.Store)
				// store must be under `r.err == nil` (in the frame where it is written)
				ok = false
				for _, a := range guardsAt(st.Block()) {
					if a.op != token.EQL || a.x == nil || a.y == nil {
						continue
					}
					for _, pr := range [][2]ssa.Value{{a.x, a.y}, {a.y, a.x}} {
						if u, isU := pr[0].(*ssa.UnOp); isU && u.Op == token.MUL && isField(u.X, errF) && isNilConst(pr[1]) {
							ok = true
						}
					}
				}
				// and the value stored is the back end's error
				v, _ := valueThrough(st.Val, errStores[0].chain)
				// the back end's error itself, or the error result of a helper of the unit all of whose returns hand it on
				var isBackendErr func(v ssa.Value, depth int) bool
				isBackendErr = func(v ssa.Value, depth int) bool {
					ex, isEx := v.(*ssa.Extract)
					if !isEx || depth > 3 {
						return false
					}
					if ex.Tuple == ssa.Value(bytesCall) {
						return ex.Index == 1
					}
					c, isCall := ex.Tuple.(*ssa.Call)
					if !isCall {
						return false
					}
					g := c.Call.StaticCallee()
					if g == nil || len(g.Blocks) == 0 || g.Object() == nil || g.Object().Exported() {
						return false
					}
					nret := 0
					for _, gb := range g.Blocks {
						if ret, isRet := lastInstr(gb).(*ssa.Return); isRet {
							nret++
							if ex.Index >= len(ret.Results) || !isBackendErr(ret.Results[ex.Index], depth+1) {
								return false
							}
						}
					}
					return nret > 0
				}
				if !isBackendErr(v, 0) {
					ok = false
				}
			}
			r.Check(ok, tc.name+" first error wins", fn.Pos(), "", "the error field is not assigned exactly once, under `err == nil`, with the error the back end returned")
		}
	}
}

func recvNameOfType(t types.Type) string {
	if p, ok := t.Underlying().(*types.Pointer); ok {
		t = p.Elem()
	}
	if n, ok := t.(*types.Named); ok {
		return n.Obj().Name()
	}
	return ""
}
