package rules

import (
	"fmt"
	"go/ast"
	"go/token"
	"go/types"
	"sort"
	"strings"

	"golang.org/x/tools/go/ssa"

	"verif/checker/core"
)

func init() {
	register(&Rule{ID: "R-ASSERT", Props: []string{"C01", "C05"}, Doc: "a pointer obtained from a comma-ok type assertion is dereferenced only where ok is known true; single-result assertions are audited", Run: runAssert})
	register(&Rule{ID: "R-NILFIELD", Props: []string{"C01", "C05"}, Doc: "AST fields documented `can be nil` are used in String/JS/JSON/Walk only under a nil test", Run: runNilField})
}

// okDominates: instruction at block b is reached only through the edge where cond `ok` is true.
func okDominates(ok ssa.Value, b *ssa.BasicBlock) bool {
	for p := b; p != nil; {
		d := p.Idom()
		if d == nil {
			return false
		}
		if iff, isIf := lastInstr(d).(*ssa.If); isIf && d.Succs[0] != d.Succs[1] {
			cond, neg := iff.Cond, false
			for {
				u, isU := cond.(*ssa.UnOp)
				if !isU || u.Op != token.NOT {
					break
				}
				cond, neg = u.X, !neg
			}
			if cond == ok {
				t := d.Succs[0]
				if neg {
					t = d.Succs[1]
				}
				if len(t.Preds) == 1 && (t == b || t.Dominates(b)) {
					return true
				}
			}
		}
		p = d
	}
	return false
}

// Single-result assertions that cannot fail, with the reason.
var assertExceptions = map[string]string{
	"(*js.Parser).exprToBinding *js.Var": "object-literal spread in a cover grammar: parseObjectLiteral clears assumeArrowFunc unless the spread operand is a plain identifier (*Var), and exprToBinding runs only while assumeArrowFunc is still set",
}

func derefs(v ssa.Value, in ssa.Instruction) bool {
	switch x := in.(type) {
	case *ssa.FieldAddr:
		return x.X == v
	case *ssa.UnOp:
		return x.Op == token.MUL && x.X == v
	case *ssa.Field:
		return x.X == v
	case ssa.CallInstruction:
		cc := x.Common()
		if cc.IsInvoke() {
			return cc.Value == v
		}
		// a method with value receiver called on the pointer dereferences it; a pointer-receiver method may
		if f := cc.StaticCallee(); f != nil && f.Signature.Recv() != nil && len(cc.Args) > 0 && cc.Args[0] == v {
			return true
		}
	}
	return false
}

func runAssert(r *core.Run) {
	commaOK, single := 0, 0
	for _, fn := range allModuleFuncs(r) {
		for _, b := range fn.Blocks {
			for _, in := range b.Instrs {
				ta, ok := in.(*ssa.TypeAssert)
				if !ok {
					continue
				}
				if _, isPtr := ta.AssertedType.Underlying().(*types.Pointer); !isPtr {
					if !ta.CommaOk {
						if _, isIface := ta.AssertedType.Underlying().(*types.Interface); !isIface {
							single++
							r.Unknown(fmt.Sprintf("%s single-result assertion to %s", fnLabel(fn), shortType(ta.AssertedType)), ta.Pos(), "unaudited single-result type assertion (panics when the dynamic type differs)")
						}
					}
					continue
				}
				if !ta.CommaOk {
					single++
					key := fmt.Sprintf("%s %s", fnLabel(fn), shortType(ta.AssertedType))
					if mi, isMI := ta.X.(*ssa.MakeInterface); isMI && types.Identical(mi.X.Type(), ta.AssertedType) {
						r.OK("single-result assertion "+key, ta.Pos(), "operand was just built from a value of the asserted type")
					} else if dynamicTypeIs(ta.X, ta.AssertedType, 0) {
						r.OK("single-result assertion "+key, ta.Pos(), "the asserted value always has this dynamic type (every value it can be is built from it)")
					} else if why, has := assertExceptions[key]; has {
						r.Except("single-result assertion "+key, ta.Pos(), why)
					} else {
						r.Fail("single-result assertion "+key, ta.Pos(), "x.(T) without the ok result panics when the dynamic type differs; no audited reason is recorded for this site")
					}
					continue
				}
				// comma-ok: find value and ok
				var val, okv *ssa.Extract
				for _, ref := range *ta.Referrers() {
					if ex, isEx := ref.(*ssa.Extract); isEx {
						if ex.Index == 0 {
							val = ex
						} else {
							okv = ex
						}
					}
				}
				if val == nil {
					continue
				}
				commaOK++
				// all values the asserted pointer flows to without change (phi-free): direct uses only
				var bad ssa.Instruction
				for _, ref := range *val.Referrers() {
					if !derefs(val, ref) {
						continue
					}
					if okv == nil || !okDominates(okv, ref.Block()) {
						// a nil test of the value itself also suffices
						if nilTestDominates(val, ref.Block()) {
							continue
						}
						bad = ref
					}
				}
				key := fmt.Sprintf("%s %s,ok := x.(%s) #%d", fnLabel(fn), val.Name(), shortType(ta.AssertedType), commaOK)
				key = fmt.Sprintf("%s assertion to %s @%s", fnLabel(fn), shortType(ta.AssertedType), ordinalIn(fn, ta))
				if bad != nil {
					r.Fail(key, bad.Pos(), "the pointer result of a comma-ok type assertion is dereferenced on a path where ok may be false (nil pointer dereference for a different dynamic type)")
				} else {
					r.OK(key, ta.Pos(), "")
				}
			}
		}
	}
	r.Floor("comma-ok pointer assertions", commaOK, 40)
	r.Count("single-result assertions", single)
}

func ordinalIn(fn *ssa.Function, target *ssa.TypeAssert) string {
	n := 0
	for _, b := range fn.Blocks {
		for _, in := range b.Instrs {
			if ta, ok := in.(*ssa.TypeAssert); ok {
				n++
				if ta == target {
					return fmt.Sprint(n)
				}
			}
		}
	}
	return "?"
}

func shortType(t types.Type) string {
	return strings.ReplaceAll(t.String(), core.ModPath+"/", "")
}

func nilTestDominates(v ssa.Value, b *ssa.BasicBlock) bool {
	for p := b; p != nil; {
		d := p.Idom()
		if d == nil {
			return false
		}
		if iff, ok := lastInstr(d).(*ssa.If); ok && d.Succs[0] != d.Succs[1] {
			if bo, ok := iff.Cond.(*ssa.BinOp); ok && (bo.Op == token.NEQ || bo.Op == token.EQL) && isNilConst(bo.Y) && bo.X == v {
				t := d.Succs[0]
				if bo.Op == token.EQL {
					t = d.Succs[1]
				}
				if len(t.Preds) == 1 && (t == b || t.Dominates(b)) {
					return true
				}
			}
		}
		p = d
	}
	return false
}

// --------------------------------------------------------------- R-NILFIELD

// optionalFields parses `// can be nil` comments on struct fields of package js.
func optionalFields(r *core.Run) map[string]bool {
	out := map[string]bool{}
	pk := r.Prog.Pkg("js")
	if pk == nil {
		return out
	}
	for _, f := range pk.Syntax {
		ast.Inspect(f, func(n ast.Node) bool {
			ts, ok := n.(*ast.TypeSpec)
			if !ok {
				return true
			}
			st, ok := ts.Type.(*ast.StructType)
			if !ok {
				return true
			}
			for _, fld := range st.Fields.List {
				txt := ""
				if fld.Comment != nil {
					txt = fld.Comment.Text()
				}
				if !strings.Contains(txt, "can be nil") {
					continue
				}
				t := pk.TypesInfo.Types[fld.Type].Type
				switch t.Underlying().(type) {
				case *types.Pointer, *types.Interface:
					for _, nm := range fld.Names {
						out[ts.Name.Name+"."+nm.Name] = true
					}
				}
			}
			return true
		})
	}
	return out
}

// fieldKey: for a load of a field address, "Type.Field".
func fieldKey(addr ssa.Value) (string, bool) {
	fa, ok := addr.(*ssa.FieldAddr)
	if !ok {
		return "", false
	}
	t := fa.X.Type()
	if p, ok := t.Underlying().(*types.Pointer); ok {
		t = p.Elem()
	}
	n, ok := t.(*types.Named)
	if !ok {
		return "", false
	}
	return n.Obj().Name() + "." + fieldName(fa.X.Type(), fa.Field), true
}

func runNilField(r *core.Run) {
	opt := optionalFields(r)
	r.Count("fields documented `can be nil` (pointer or interface)", len(opt))
	r.Floor("optional AST fields", len(opt), 25)
	uses := 0
	var fns []*ssa.Function
	for _, fn := range allModuleFuncs(r) {
		if core.RelPkg(fnPkg(fn)) != "js" {
			continue
		}
		switch fn.Name() {
		case "String", "JS", "JSON", "Walk", "JSString", "JSONString":
			fns = append(fns, fn)
		}
	}
	sort.Slice(fns, func(i, j int) bool { return fns[i].String() < fns[j].String() })
	for _, fn := range fns {
		for _, b := range fn.Blocks {
			for _, in := range b.Instrs {
				u, ok := in.(*ssa.UnOp)
				if !ok || u.Op != token.MUL {
					continue
				}
				fk, ok := fieldKey(u.X)
				if !ok || !opt[fk] {
					continue
				}
				for _, ref := range *u.Referrers() {
					if !derefs(u, ref) {
						continue
					}
					uses++
					key := fmt.Sprintf("%s uses %s", fnLabel(fn), fk)
					guarded := nilTestDominates(u, ref.Block()) || fieldNilTestDominates(u.X, ref.Block()) || allPathsGuarded(fn, u.X, ref.Block())
					// Walk(v, n.F) style calls are not dereferences; only direct method calls / field reads count
					r.Check(guarded, key, ref.Pos(), "", fmt.Sprintf("field %s is documented `can be nil` but is dereferenced / has a method called on it without a dominating nil test: printing or converting a valid tree panics", fk))
				}
			}
		}
	}
	r.Floor("uses of optional fields", uses, 30)
}

// fieldNilTestDominates: some dominating branch tests a load of the same field address (by canonical name) against nil.
func fieldNilTestDominates(addr ssa.Value, b *ssa.BasicBlock) bool {
	want := canon(addr)
	for p := b; p != nil; {
		d := p.Idom()
		if d == nil {
			return false
		}
		if iff, ok := lastInstr(d).(*ssa.If); ok && d.Succs[0] != d.Succs[1] {
			if bo, ok := iff.Cond.(*ssa.BinOp); ok && (bo.Op == token.NEQ || bo.Op == token.EQL) && isNilConst(bo.Y) {
				if u, ok := bo.X.(*ssa.UnOp); ok && u.Op == token.MUL && canon(u.X) == want {
					t := d.Succs[0]
					if bo.Op == token.EQL {
						t = d.Succs[1]
					}
					if len(t.Preds) == 1 && (t == b || t.Dominates(b)) {
						return true
					}
				}
			}
		}
		p = d
	}
	return false
}

// allPathsGuarded: every path from the entry to block b takes an edge that
// establishes that the field at addr is non-nil: the true edge of `f != nil`,
// the false edge of `f == nil`, or the true edge of a comma-ok type assertion
// on a load of the same field.
func allPathsGuarded(fn *ssa.Function, addr ssa.Value, target *ssa.BasicBlock) bool {
	want := canon(addr)
	isFieldLoad := func(v ssa.Value) bool {
		u, ok := v.(*ssa.UnOp)
		return ok && u.Op == token.MUL && canon(u.X) == want
	}
	guardEdge := func(b *ssa.BasicBlock, i int) bool {
		iff, ok := lastInstr(b).(*ssa.If)
		if !ok {
			return false
		}
		cond, truth := iff.Cond, i == 0
		for {
			u, isU := cond.(*ssa.UnOp)
			if !isU || u.Op != token.NOT {
				break
			}
			cond, truth = u.X, !truth
		}
		if bo, ok := cond.(*ssa.BinOp); ok && isNilConst(bo.Y) && isFieldLoad(bo.X) {
			return (bo.Op == token.NEQ) == truth
		}
		if ex, ok := cond.(*ssa.Extract); ok && ex.Index == 1 {
			if ta, ok := ex.Tuple.(*ssa.TypeAssert); ok && isFieldLoad(ta.X) {
				return truth
			}
		}
		return false
	}
	seen := map[*ssa.BasicBlock]bool{}
	var reach func(b *ssa.BasicBlock) bool
	reach = func(b *ssa.BasicBlock) bool {
		if b == target {
			return true
		}
		if seen[b] {
			return false
		}
		seen[b] = true
		for i, s := range b.Succs {
			if guardEdge(b, i) {
				continue
			}
			if reach(s) {
				return true
			}
		}
		return false
	}
	return len(fn.Blocks) > 0 && !reach(fn.Blocks[0])
}

// dynamicTypeIs: every value v can take is an interface built (MakeInterface) from a non-nil value of type t:
// a composite-literal address, or the matching result of a module function all of whose returns are such values.
func dynamicTypeIs(v ssa.Value, t types.Type, depth int) bool {
	if depth > 4 {
		return false
	}
	switch x := v.(type) {
	case *ssa.MakeInterface:
		if !types.Identical(x.X.Type(), t) {
			return false
		}
		if _, isPtr := t.Underlying().(*types.Pointer); isPtr {
			_, fresh := x.X.(*ssa.Alloc) // &T{...}: never nil
			return fresh
		}
		return true
	case *ssa.ChangeInterface:
		return dynamicTypeIs(x.X, t, depth+1)
	case *ssa.Phi:
		for _, e := range x.Edges {
			if !dynamicTypeIs(e, t, depth+1) {
				return false
			}
		}
		return len(x.Edges) > 0
	case *ssa.Extract:
		c, ok := x.Tuple.(*ssa.Call)
		if !ok {
			return false
		}
		return callResultDynamicType(c, x.Index, t, depth)
	case *ssa.Call:
		return callResultDynamicType(x, 0, t, depth)
	}
	return false
}

func callResultDynamicType(c *ssa.Call, ri int, t types.Type, depth int) bool {
	g := c.Call.StaticCallee()
	if g == nil || c.Call.IsInvoke() || len(g.Blocks) == 0 || fnPkg(g) == nil || !core.InModule(fnPkg(g)) {
		return false
	}
	n := 0
	for _, b := range g.Blocks {
		ret, ok := lastInstr(b).(*ssa.Return)
		if !ok {
			continue
		}
		if ri >= len(ret.Results) {
			return false
		}
		n++
		if !dynamicTypeIs(ret.Results[ri], t, depth+1) {
			return false
		}
	}
	return n > 0
}
