package rules

import (
	"fmt"
	"go/constant"
	"go/token"

	"golang.org/x/tools/go/ssa"

	"verif/checker/core"
)

func init() {
	register(&Rule{ID: "R-JSONKEY", Props: []string{"C10"}, Doc: "json.Parser.Next: where an object key is expected only a key (string followed by a colon), the object's end or an error is returned; State() reads the top of the stack", Run: runJSONKey})
}

// topStateFact: does the edge d -> p decide the top-of-stack state loaded at
// entry? Returns (known, mayBeKey): known when the edge compares the top load
// with a State constant; mayBeKey is false when the edge excludes ObjectKeyState.
func topStateEdge(d, p *ssa.BasicBlock, objectKey int64) (known, excludesKey bool) {
	iff, ok := lastInstr(d).(*ssa.If)
	if !ok || len(p.Preds) != 1 {
		return false, false
	}
	bo, ok := iff.Cond.(*ssa.BinOp)
	if !ok || !isTopLoad(bo.X) {
		return false, false
	}
	k, ok := bo.Y.(*ssa.Const)
	if !ok || !ssaIntConst(k) {
		return false, false
	}
	onTrue := d.Succs[0] == p && d.Succs[1] != p
	onFalse := d.Succs[1] == p && d.Succs[0] != p
	isKey := k.Int64() == objectKey
	switch bo.Op {
	case token.EQL:
		if onTrue {
			return true, !isKey // state == K
		}
		if onFalse {
			return true, isKey // state != K
		}
	case token.NEQ:
		if onTrue {
			return true, isKey
		}
		if onFalse {
			return true, !isKey
		}
	}
	return false, false
}

func runJSONKey(r *core.Run) {
	fn := r.Prog.SSAFunc("json", "Parser", "Next")
	stf := r.Prog.SSAFunc("json", "Parser", "State")
	pk := r.Prog.Pkg("json")
	if fn == nil || stf == nil || pk == nil {
		r.BrokenAnchor("json.Parser.Next / State")
		return
	}
	st := map[string]int64{}
	for n, c := range constsOfType(pk, "State") {
		st[n], _ = constant.Int64Val(constant.ToInt(c))
	}
	gt := map[int64]string{}
	gtv := map[string]int64{}
	for n, c := range constsOfType(pk, "GrammarType") {
		v, _ := constant.Int64Val(constant.ToInt(c))
		gt[v], gtv[n] = n, v
	}
	for _, need := range []string{"ObjectKeyState", "ObjectValueState"} {
		if _, ok := st[need]; !ok {
			r.BrokenAnchor("json." + need)
			return
		}
	}
	for _, need := range []string{"ErrorGrammar", "EndObjectGrammar"} {
		if _, ok := gtv[need]; !ok {
			r.BrokenAnchor("json." + need)
			return
		}
	}
	// blocks that store ObjectValueState to the top of the stack (the key path)
	keyStore := map[*ssa.BasicBlock]bool{}
	for _, b := range fn.Blocks {
		for _, in := range b.Instrs {
			if s, ok := in.(*ssa.Store); ok {
				if c, isC := s.Val.(*ssa.Const); isC && ssaIntConst(c) && c.Int64() == st["ObjectValueState"] {
					if ia, isIA := s.Addr.(*ssa.IndexAddr); isIA {
						l := linOf(ia.Index)
						if len(l.T) == 1 && l.C == -1 {
							keyStore[b] = true
						}
					}
				}
			}
		}
	}
	n := 0
	count := map[string]int{}
	for _, b := range fn.Blocks {
		ret, ok := lastInstr(b).(*ssa.Return)
		if !ok || len(ret.Results) == 0 {
			continue
		}
		c, isC := ret.Results[0].(*ssa.Const)
		if !isC || !ssaIntConst(c) {
			r.Unknown("json.Parser.Next returns a computed GrammarType", ret.Pos(), "the unit type is not a constant at this return; the key-position rule cannot classify it")
			continue
		}
		name := gt[c.Int64()]
		if name == "ErrorGrammar" || name == "EndObjectGrammar" {
			continue
		}
		n++
		count[name]++
		ok2 := false
		for p := b; p != nil && !ok2; p = p.Idom() {
			if keyStore[p] {
				ok2 = true // the key path: the string is followed by a colon and the state becomes ObjectValueState
				break
			}
			d := p.Idom()
			if d == nil {
				break
			}
			if known, excl := topStateEdge(d, p, st["ObjectKeyState"]); known && excl {
				ok2 = true
			}
		}
		r.Check(ok2, fmt.Sprintf("json.Parser.Next returns %s #%d only where no object key is expected", name, count[name]), ret.Pos(), "",
			fmt.Sprintf("%s is returned on a path that has not excluded ObjectKeyState as the top state and is not the key path (string, colon, state := ObjectValueState): with an object open and a key expected, something that is not a string is accepted as a unit instead of being reported as a parse error (e.g. a container in key position: {{}} or {[1]:2})", name))
	}
	r.Floor("json non-error unit returns", n, 6)
	// State() returns the top of the stack
	okState := false
	for _, b := range stf.Blocks {
		if ret, ok := lastInstr(b).(*ssa.Return); ok && len(ret.Results) == 1 && isTopLoad(ret.Results[0]) {
			okState = true
		}
	}
	r.Check(okState, "json.Parser.State returns the top of the state stack", stf.Pos(), "", "State() does not return p.state[len(p.state)-1]: it would not describe the innermost open container")
}

func ssaIntConst(c *ssa.Const) bool {
	return c != nil && c.Value != nil && c.Value.Kind() == constant.Int
}
