package rules

import (
	"fmt"
	"go/constant"
	"go/token"
	"go/types"
	"golang.org/x/tools/go/packages"
	"strings"

	"golang.org/x/tools/go/ssa"

	"verif/checker/core"
)

func init() {
	register(&Rule{ID: "R-JSONKEY", Props: []string{"C10"}, Doc: "json.Parser.Next: where an object key is expected only a key (string followed by a colon), the object's end or an error is returned; State() reads the top of the stack", Run: runJSONKey})
}

// jsonStackField: the field of json.Parser that holds the container stack (by type: []State).
func jsonStackField(pk *packages.Package) string {
	obj, _ := pk.Types.Scope().Lookup("Parser").(*types.TypeName)
	if obj == nil {
		return ""
	}
	st, _ := obj.Type().Underlying().(*types.Struct)
	if st == nil {
		return ""
	}
	name := ""
	for i := 0; i < st.NumFields(); i++ {
		if sl, ok := st.Field(i).Type().Underlying().(*types.Slice); ok {
			if n, ok := sl.Elem().(*types.Named); ok && n.Obj().Name() == "State" && n.Obj().Pkg() == pk.Types {
				if name != "" {
					return "" // ambiguous
				}
				name = st.Field(i).Name()
			}
		}
	}
	return name
}

// isTopOfStack: v is p.<stack>[len(p.<stack>)-1], or a parameter that receives such a value at every call site.
func isTopOfStack(r *core.Run, v ssa.Value, field string, depth int) bool {
	if depth > 3 {
		return false
	}
	if u, ok := v.(*ssa.UnOp); ok && u.Op == token.MUL {
		if ia, ok := u.X.(*ssa.IndexAddr); ok && (strings.HasSuffix(canon(ia.X), "."+field) || isStackValue(r, ia.X, "json.Parser", field, 0)) {
			l := linOf(ia.Index)
			return len(l.T) == 1 && l.C == -1
		}
		return false
	}
	// an accessor: func (p *Parser) top() State { return p.stack[len(p.stack)-1] }
	if c, ok := v.(*ssa.Call); ok {
		if g := c.Call.StaticCallee(); g != nil && fnPkg(g) != nil && core.InModule(fnPkg(g)) && len(g.Blocks) == 1 {
			if ret, isRet := lastInstr(g.Blocks[0]).(*ssa.Return); isRet && len(ret.Results) == 1 {
				if _, isParam := ret.Results[0].(*ssa.Parameter); !isParam {
					return isTopOfStack(r, ret.Results[0], field, depth+1)
				}
			}
		}
		return false
	}
	if args, ok := argsOfParam(r, v); ok {
		for _, a := range args {
			if !isTopOfStack(r, a, field, depth+1) {
				return false
			}
		}
		return true
	}
	return false
}

// jsonLeaf: one constant unit that json.Parser.Next can return, with the instruction that decides it.
type jsonLeaf struct {
	at   ssa.Instruction // the return (or the call site passing the constant) where the unit is chosen
	unit int64
}

// unitLeaves enumerates the constant first results of fn, following calls to module functions that
// compute the result and parameters back to the constants passed at the call sites.
func unitLeaves(r *core.Run, fn *ssa.Function, depth int, undecided *[]ssa.Instruction) []jsonLeaf {
	var out []jsonLeaf
	if depth > 3 {
		return out
	}
	var resolve func(v ssa.Value, at ssa.Instruction, d int)
	resolve = func(v ssa.Value, at ssa.Instruction, d int) {
		switch x := v.(type) {
		case *ssa.Const:
			if ssaIntConst(x) {
				out = append(out, jsonLeaf{at: at, unit: x.Int64()})
				return
			}
		case *ssa.Extract:
			if c, ok := x.Tuple.(*ssa.Call); ok && x.Index == 0 {
				if g := c.Call.StaticCallee(); g != nil && core.InModule(fnPkg(g)) && len(g.Blocks) > 0 && d < 3 {
					out = append(out, unitLeaves(r, g, depth+1, undecided)...)
					return
				}
			}
		case *ssa.Call:
			if g := x.Call.StaticCallee(); g != nil && core.InModule(fnPkg(g)) && len(g.Blocks) > 0 && d < 3 {
				out = append(out, unitLeaves(r, g, depth+1, undecided)...)
				return
			}
		case *ssa.Phi:
			for i, e := range x.Edges {
				resolve(e, lastInstr(x.Block().Preds[i]), d+1)
			}
			return
		case *ssa.Parameter:
			// the constant is chosen at the call sites
			p := x.Parent()
			idx := -1
			for i, q := range p.Params {
				if q == x {
					idx = i
				}
			}
			sites := callSitesOf(r, p)
			if idx >= 0 && len(sites) > 0 && d < 3 {
				for _, c := range sites {
					resolve(c.Call.Args[idx], c, d+1)
				}
				return
			}
		}
		// a field of a row of a constant table (start := containerStart[c]; start.ok; return start.grammar, …)
		if ks, ok := tableFieldValues(r, v, at); ok && len(ks) > 0 {
			for _, k := range ks {
				out = append(out, jsonLeaf{at: at, unit: k})
			}
			return
		}
		*undecided = append(*undecided, at)
	}
	for _, b := range fn.Blocks {
		ret, ok := lastInstr(b).(*ssa.Return)
		if !ok || len(ret.Results) == 0 {
			continue
		}
		resolve(ret.Results[0], ret, 0)
	}
	return out
}

func runJSONKey(r *core.Run) {
	fn := r.Prog.SSAFunc("json", "Parser", "Next")
	stf := r.Prog.SSAFunc("json", "Parser", "State")
	pk := r.Prog.Pkg("json")
	if fn == nil || stf == nil || pk == nil {
		r.BrokenAnchor("json.Parser.Next / State")
		return
	}
	field := jsonStackField(pk)
	if field == "" {
		r.BrokenAnchor("json.Parser field of type []State")
		return
	}
	st := map[string]int64{}
	for n, c := range constsOfType(pk, "State") {
		st[n], _ = constant.Int64Val(constant.ToInt(c))
	}
	gt := map[int64]string{}
	gtv := map[string]int64{}
	for n, c := range constsOfType(pk, "GrammarType") {
		v, _ := constant.Int64Val(constant.ToInt(c))
		gt[v], gtv[n] = n, v
	}
	for _, need := range []string{"ObjectKeyState", "ObjectValueState"} {
		if _, ok := st[need]; !ok {
			r.BrokenAnchor("json." + need)
			return
		}
	}
	for _, need := range []string{"ErrorGrammar", "EndObjectGrammar"} {
		if _, ok := gtv[need]; !ok {
			r.BrokenAnchor("json." + need)
			return
		}
	}
	key := st["ObjectKeyState"]
	excludesKey := func(a condAtom, _ *ssa.Function) bool {
		x, y := a.x, a.y
		if _, isC := x.(*ssa.Const); isC {
			x, y = y, x
		}
		k, ok := y.(*ssa.Const)
		if !ok || !ssaIntConst(k) || !isTopOfStack(r, x, field, 0) {
			return false
		}
		switch a.op {
		case token.EQL:
			return k.Int64() != key
		case token.NEQ:
			return k.Int64() == key
		}
		return false
	}
	// does block b (or a dominator) store ObjectValueState to the top of the stack (the key path)?
	isTopAddr := func(a ssa.Value) bool {
		if ia, isIA := a.(*ssa.IndexAddr); isIA && (strings.HasSuffix(canon(ia.X), "."+field) || isStackValue(r, ia.X, "json.Parser", field, 0)) {
			l := linOf(ia.Index)
			return len(l.T) == 1 && l.C == -1
		}
		return false
	}
	// storesTop: the constant that instruction in stores to the top of the stack — directly, or through a
	// one-block setter such as setTop(state)
	storesTop := func(in ssa.Instruction) (int64, bool) {
		switch x := in.(type) {
		case *ssa.Store:
			if c, isC := x.Val.(*ssa.Const); isC && ssaIntConst(c) && isTopAddr(x.Addr) {
				return c.Int64(), true
			}
		case *ssa.Call:
			g := x.Call.StaticCallee()
			if g == nil || fnPkg(g) == nil || !core.InModule(fnPkg(g)) || len(g.Blocks) != 1 {
				return 0, false
			}
			for _, gi := range g.Blocks[0].Instrs {
				s, ok := gi.(*ssa.Store)
				if !ok || !isTopAddr(s.Addr) {
					continue
				}
				for i, q := range g.Params {
					if ssa.Value(q) == s.Val && i < len(x.Call.Args) {
						if c, isC := x.Call.Args[i].(*ssa.Const); isC && ssaIntConst(c) {
							return c.Int64(), true
						}
					}
				}
			}
		}
		return 0, false
	}
	// does block b (or a dominator) store ObjectValueState to the top of the stack (the key path)?
	storesValueState := func(at ssa.Instruction) bool {
		for p := at.Block(); p != nil; p = p.Idom() {
			for _, in := range p.Instrs {
				if k, ok := storesTop(in); ok && k == st["ObjectValueState"] {
					return true
				}
			}
		}
		return false
	}
	var undec []ssa.Instruction
	leaves := unitLeaves(r, fn, 0, &undec)
	for _, u := range undec {
		r.Unknown("json.Parser.Next returns a computed GrammarType", u.Pos(), "the unit type is not a constant (directly, through a helper's result, or through a parameter bound to constants at every call site); the key-position rule cannot classify it")
	}
	n := 0
	count := map[string]int{}
	seen := map[ssa.Instruction]map[int64]bool{}
	for _, lf := range leaves {
		if seen[lf.at] == nil {
			seen[lf.at] = map[int64]bool{}
		}
		if seen[lf.at][lf.unit] {
			continue
		}
		seen[lf.at][lf.unit] = true
		name := gt[lf.unit]
		if name == "ErrorGrammar" || name == "EndObjectGrammar" {
			continue
		}
		n++
		count[name]++
		ok := storesValueState(lf.at) || holdsAt(r, lf.at, excludesKey, 0)
		r.Check(ok, fmt.Sprintf("json.Parser.Next returns %s #%d only where no object key is expected", name, count[name]), lf.at.Pos(), "",
			fmt.Sprintf("%s is returned on a path that has not excluded ObjectKeyState as the top state and is not the key path (string, colon, state := ObjectValueState): with an object open and a key expected, something that is not a string is accepted as a unit instead of being reported as a parse error (e.g. a container in key position: {{}} or {[1]:2})", name))
	}
	r.Floor("json non-error unit returns", n, 3)
	// State() returns the top of the stack
	okState := false
	for _, b := range stf.Blocks {
		if ret, ok := lastInstr(b).(*ssa.Return); ok && len(ret.Results) == 1 && isTopOfStack(r, ret.Results[0], field, 0) {
			okState = true
		}
	}
	r.Check(okState, "json.Parser.State returns the top of the state stack", stf.Pos(), "", "State() does not return the last element of the container stack: it would not describe the innermost open container")
}

func ssaIntConst(c *ssa.Const) bool {
	return c != nil && c.Value != nil && c.Value.Kind() == constant.Int
}
