package rules

// Frozen on the tree that carries fix 7c3f35a: functions of the lexer/parser packages (C01) and of the
// binary reader/writer (C19) whose every index and slice expression is discharged by the bounds engine.
// They are added to boundsScope so that a later out-of-range access in any of them is reported.
// Functions of these packages that are not listed contain at least one access that depends on a
// value-level invariant (token data is non-empty, a list has an element) and are not decided.
func init() {
	boundsScope["C01"] = append(boundsScope["C01"], "(*css.Lexer).consumeIdentlike", "(*css.Parser).initBuf", "(*css.Parser).parseCustomProperty", "(*css.Parser).parseQualifiedRule", "(*css.Parser).pushBuf", "(*html.Lexer).at", "(*html.Lexer).atCaseInsensitive", "(*js.Lexer).Next", "(*js.Lexer).consumeIdentifierToken", "(*js.Lexer).consumeRegExpToken", "(*js.Parser).consume", "(*js.Parser).exprToBinding", "(*js.Parser).fail", "(*js.Parser).next", "(*js.Parser).parseAnyClass", "(*js.Parser).parseArguments", "(*js.Parser).parseArrayLiteral", "(*js.Parser).parseArrowFuncBody", "(*js.Parser).parseAsyncArrowFunc", "(*js.Parser).parseClassElement", "(*js.Parser).parseExportStmt", "(*js.Parser).parseExpression", "(*js.Parser).parseExpressionSuffix", "(*js.Parser).parseFunc", "(*js.Parser).parseFuncParams", "(*js.Parser).parseImportStmt", "(*js.Parser).parseModule", "(*js.Parser).parseObjectLiteral", "(*js.Parser).parseTemplateLiteral", "(*js.Parser).parseVarDecl", "(*js.Scope).AddUndeclared", "(*js.Scope).UndeclareScope", "(*js.Scope).Unscope", "(*js.Scope).Use", "(*js.Scope).findUndeclared", "(*js.Var).Info", "(*xml.Lexer).Next", "(*xml.Lexer).at", "(js.TokenType).Bytes", "css.NewParser", "html.NewTemplateLexer", "js.NewLexer", "js.Parse", "json.NewParser")
	boundsScope["C19"] = append(boundsScope["C19"], "(*parse.BinaryReader).ReadByte", "(*parse.BinaryReader).ReadUint16", "(*parse.BinaryReader).ReadUint24", "(*parse.BinaryReader).ReadUint32", "(*parse.BinaryReader).ReadUint64", "(*parse.BinaryReader).ReadUint8", "(*parse.BinaryWriter).WriteByte", "(*parse.BinaryWriter).WriteUint24", "parse.newBinaryReaderMmap")
}
