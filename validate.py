#!/usr/bin/env python3-vt
# Validates MANIFEST.json and evidence/*.json against the given schemas (development aid).
import json, glob, sys, jsonschema
jsonschema.validate(json.load(open('/verif/MANIFEST.json')), json.load(open('/root/.vp/MANIFEST.schema.json')))
s = json.load(open('/root/.vp/EVIDENCE.schema.json'))
n = 0
for f in sorted(glob.glob('/verif/evidence/C*.json')):
    jsonschema.validate(json.load(open(f)), s); n += 1
print('manifest ok; %d evidence files ok' % n)
