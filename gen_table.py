#!/usr/bin/env python3
"""Regenerate the seeded-change table of DESIGN.md section 12 from seeded/RESULTS.json (and REFACTOR_RESULTS.json)."""
import json, os, re
R=json.load(open('/verif/seeded/RESULTS.json'))
def title(n):
    p=f'/verif/seeded/{n}/notes.md'
    if not os.path.exists(p): return ''
    for l in open(p):
        l=l.strip()
        if l.startswith('#'):
            t=re.sub(r'^#+\s*','',l)
            t=re.sub(r'^(C\d\d\s*/\s*)?m\d\s*[-—:]+\s*','',t)
            return t.replace('|','/')[:110]
    return ''
def files(n):
    p=f'/verif/seeded/{n}/patch.diff'
    return ', '.join(sorted(set(re.findall(r'^\+\+\+ b/(\S+)', open(p).read(), re.M))))
def rnd(n):
    prop, m = n.split('-m'); m=int(m)
    if n in ('C14-m6','C14-m7','C14-m8'): return '5 (last session; m7, m8 held-out, m6 trained-on)'
    if n in ('C12-m7','C12-m8','C13-m7','C13-m8','C14-m4','C14-m5','C19-m7','C19-m8'): return '4 (held-out, last session)'
    if m>=4: return '3 (held-out)'
    return '1' if prop in ('C01','C02','C03','C04','C06','C08','C09','C12','C13','C18','C19','C20') else '2'
rows=[]
tot={}
for n in sorted(R):
    v=R[n]
    if 'error' in v:
        rows.append(f'| {n} | {files(n)} | {title(n)} | (patch no longer applies: {v["error"][:40]}) | {rnd(n)} |'); continue
    rules=[]
    for p,c in v['caught_by'].items():
        for rep in c['reports']:
            m=re.search(r'rule=(\S+)', rep)
            tag=(m.group(1) if m else 'check-broken')
            if 'UNDECIDED' in rep: tag+=' (undecided)'
            if tag not in rules: rules.append(tag)
    res = '**caught**: '+', '.join(rules) if v['caught_by'] else 'missed'
    rows.append(f'| {n} | {files(n)} | {title(n)} | {res} | {rnd(n)} |')
    k=rnd(n); t=tot.setdefault(k,[0,0]); t[1]+=1; t[0]+= 1 if v['caught_by'] else 0
out=['| change | file | what it does | checks | round |','|---|---|---|---|---|']+rows
summ='Totals: '+'; '.join(f'round {k}: {a} of {b} reported' for k,(a,b) in sorted(tot.items()))+'.'
txt='\n'.join(out)+'\n\n'+summ+'\n'
rf='/verif/seeded/REFACTOR_RESULTS.json'
if os.path.exists(rf):
    F=json.load(open(rf))
    al=[k for k,v in F.items() if v.get('alarms')]
    txt+=f'\nBehaviour-preserving refactorings evaluated: {len(F)}; with an alarm: {len(al)} ({", ".join(al) if al else "none"}).\n'
D=open('/verif/DESIGN.md').read()
if 'RESULTS_TABLE_PLACEHOLDER' in D:
    D=D.replace('RESULTS_TABLE_PLACEHOLDER','<!-- RESULTS-TABLE-BEGIN -->\n'+txt+'<!-- RESULTS-TABLE-END -->')
else:
    D=re.sub(r'<!-- RESULTS-TABLE-BEGIN -->.*?<!-- RESULTS-TABLE-END -->','<!-- RESULTS-TABLE-BEGIN -->\n'+txt.replace('\\','\\\\')+'<!-- RESULTS-TABLE-END -->',D,flags=re.S)
open('/verif/DESIGN.md','w').write(D)
print(summ)
