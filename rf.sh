#!/bin/bash
# rf.sh <refactor-name> <prop> [extra pcheck args]: run a check of the dev binary against a stored refactoring in scratch worktree /tmp/wtx
n=$1; p=$2; shift 2
[ -d /tmp/wtx ] || git -C /repo worktree add -f --detach /tmp/wtx HEAD >/dev/null 2>&1
git -C /tmp/wtx checkout -q --detach $(git -C /repo rev-parse HEAD) 2>/dev/null; git -C /tmp/wtx checkout -q -- . ; git -C /tmp/wtx clean -fdq
git -C /tmp/wtx apply /verif/seeded/refactor/$n/patch.diff || { echo "patch does not apply"; exit 3; }
mkdir -p /tmp/evalverif2; cp /verif/known-findings.txt /tmp/evalverif2/
timeout 900 ${PCHECK:-/tmp/pcheck3} -prop $p -tier quick -repo /tmp/wtx -verif /tmp/evalverif2 "$@" 2>&1 | grep -v '^VIOLATION\|^KNOWN' | grep 'VIOLATED\|UNDECIDED\|BROKEN\|^property' | cut -c1-${W:-400}
git -C /tmp/wtx checkout -q -- .
