#!/bin/bash
# allquick.sh [binary] [repo]: quick tier of all 20 properties with the dev binary into a scratch evidence dir; prints one line per property
PC=${1:-/tmp/pcheck2}; REPO=${2:-/repo}
mkdir -p /tmp/evalverif2/evidence/replay; cp /verif/known-findings.txt /tmp/evalverif2/
for p in C01 C02 C03 C04 C05 C06 C07 C08 C09 C10 C11 C12 C13 C14 C15 C16 C17 C18 C19 C20; do
  out=$(timeout 1200 $PC -prop $p -tier ${TIER:-quick} -repo $REPO -verif /tmp/evalverif2 2>&1); rc=$?
  echo "$p exit=$rc $(echo "$out" | grep '^property' | cut -c1-140)"
  [ $rc -ne 0 ] && echo "$out" | grep 'VIOLATED\|UNDECIDED\|BROKEN' | grep -v KNOWN | head -5 | cut -c1-300
done
