#!/bin/bash
# rw.sh <area> <N> <prop> [extra pcheck args]: dev binary against round-6 refactoring (seeded/refactor/<area>-w<N> or /tmp/wtw_<area>/out/r<N>)
a=$1; n=$2; p=$3; shift 3
pd=/verif/seeded/refactor/$a-w$n/patch.diff; [ -f $pd ] || pd=/tmp/wtw_$a/out/r$n/patch.diff
[ -d /tmp/wtx ] || git -C /repo worktree add -f --detach /tmp/wtx HEAD >/dev/null 2>&1
git -C /tmp/wtx checkout -q --detach $(git -C /repo rev-parse HEAD) 2>/dev/null; git -C /tmp/wtx checkout -q -- . ; git -C /tmp/wtx clean -fdq
git -C /tmp/wtx apply $pd || { echo "patch does not apply"; exit 3; }
mkdir -p /tmp/evalverif2; cp /verif/known-findings.txt /tmp/evalverif2/
timeout 900 ${PCHECK:-/tmp/pcheck3} -prop $p -tier quick -repo /tmp/wtx -verif /tmp/evalverif2 "$@" 2>&1 | grep -v '^VIOLATION\|^KNOWN' | grep 'VIOLATED\|UNDECIDED\|BROKEN\|^property' | cut -c1-${W:-400}
[ -n "$KEEP" ] || git -C /tmp/wtx checkout -q -- .
