#!/usr/bin/env python3
"""Confirm a sub-agent's seeded change in a scratch worktree: it builds, the pinned suite passes,
the demonstration fails with the change and passes without it. Then store it under /verif/seeded/<name>/.
usage: verifyseed.py <worktree> <mutant-dir> <property> <name>"""
import sys, os, re, subprocess, json, shutil, glob
wt, md, prop, name = sys.argv[1:5]
env = dict(os.environ, GOFLAGS='-mod=mod', GOPROXY='off', GOSUMDB='off', GOTOOLCHAIN='local', GOWORK='off')
def run(cmd, cwd=wt, timeout=900):
    p = subprocess.run(cmd, shell=True, cwd=cwd, env=env, capture_output=True, text=True, timeout=timeout)
    return p.returncode, (p.stdout + p.stderr)
pkgdir = {'css_test':'css','js_test':'js','html_test':'html','xml_test':'xml','json_test':'json','strconv_test':'strconv','js':'js','css':'css','html':'html','xml':'xml','json':'json','buffer':'buffer','buffer_test':'buffer','parse':'.','parse_test':'.','strconv':'strconv'}
demos = [f for f in glob.glob(os.path.join(md,'*')) if re.search(r'(_test\.go(\.txt)?|_test\.go)$', f)]
run('git checkout -- . && git clean -fdq -e out')
def place():
    placed=[]; tests=[]; tags=set(); dirs=set()
    for d in demos:
        src=open(d).read()
        m=re.search(r'^package (\w+)', src, re.M)
        pkg=m.group(1)
        dest=os.path.join(wt, pkgdir[pkg], 'zz_seed_'+os.path.basename(d).replace('.txt','').lstrip('_'))
        if not dest.endswith('_test.go'): dest+='_test.go'
        open(dest,'w').write(src); placed.append(dest); dirs.add(pkgdir[pkg])
        tests+=re.findall(r'^func (Test\w+)\(', src, re.M)
        tags|=set(re.findall(r'^//go:build (\w+)', src, re.M))
    return placed, tests, tags, dirs
def rundemo():
    placed, tests, tags, dirs = place()
    res=[]
    for d in dirs:
        tagarg = ('-tags '+','.join(tags)) if tags else ''
        rc,out=run(f"go test {tagarg} -vet=off -count=1 -run '^({'|'.join(tests)})$' ./{d}/", timeout=1200)
        res.append((rc,out[-1500:]))
    for p in placed: os.remove(p)
    return res
report={'property':prop,'name':name}
rc,out=run(f'git apply {md}/patch.diff'); report['applies']=rc==0
rc,out=run('go build ./...'); report['builds']=rc==0
rc,out=run("go test -vet=off -count=1 $(go list ./... | grep -v /out)"); report['suite_passes_with_change']=rc==0
if rc!=0: report['suite_output']=out[-800:]
r1=rundemo(); report['demo_fails_with_change']=all(rc!=0 for rc,_ in r1)
report['demo_output_with_change']=r1[0][1][-600:] if r1 else ''
run('git checkout -- . && git clean -fdq -e out')
r2=rundemo(); report['demo_passes_without_change']=all(rc==0 for rc,_ in r2)
ok=all(report[k] for k in ['applies','builds','suite_passes_with_change','demo_fails_with_change','demo_passes_without_change'])
report['confirmed']=ok
print(json.dumps({k:v for k,v in report.items() if k not in('demo_output_with_change','suite_output')}))
if not ok:
    print(report.get('suite_output',''), report.get('demo_output_with_change','')[-400:])
    sys.exit(1)
dst=f'/verif/seeded/{name}'
os.makedirs(dst, exist_ok=True)
shutil.copy(os.path.join(md,'patch.diff'), dst)
for d in demos: shutil.copy(d, os.path.join(dst, os.path.basename(d).replace('.go','.go.txt') if not d.endswith('.txt') else os.path.basename(d)))
if os.path.exists(os.path.join(md,'notes.md')): shutil.copy(os.path.join(md,'notes.md'), dst)
meta={'property':prop,'origin':'independent sub-agent, given only the property text and a scratch worktree','what_it_needs':'see notes.md',
 'confirmed_by':'verifyseed.py in scratch worktree: patch applies; go build ./... ok; pinned suite passes with the change; demonstration fails with the change and passes without it',
 'commands':['git apply patch.diff','go build ./...','go test -vet=off -count=1 ./...','go test -run <demo tests> ./<pkg>/ (fails)','git checkout -- .','go test -run <demo tests> ./<pkg>/ (passes)'],
 'demo_output_with_change_tail':report['demo_output_with_change'][-400:]}
json.dump(meta, open(os.path.join(dst,'meta.json'),'w'), indent=1)
