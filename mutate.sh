#!/bin/bash
# usage: mutate.sh <prop> <file> <python-expr old> <new>   (development aid: apply one textual edit to /repo, run the check, revert)
prop=$1; file=$2; old=$3; new=$4
cd /repo
python3 - "$file" "$old" "$new" <<'PY'
import sys
p,old,new=sys.argv[1:4]
s=open(p).read()
assert s.count(old)>=1, "pattern not found"
s=s.replace(old,new,1)
open(p,'w').write(s)
PY
[ $? -ne 0 ] && { echo "PATTERN NOT FOUND"; exit 9; }
export GOFLAGS=-mod=mod GOPROXY=off GOSUMDB=off GOTOOLCHAIN=local GOWORK=off
go build ./... 2>&1 | head -3
/verif/check $prop quick 2>&1 | grep -E "^property|VIOLATED|UNDECIDED|CHECK-BROKEN" | cut -c1-260 | head -8
git checkout -- .
