#!/bin/sh
# Builds the static checker from files on disk only (x/tools is vendored).
set -e
cd "$(dirname "$0")/checker"
export GOFLAGS=-mod=vendor GOPROXY=off GOSUMDB=off GOTOOLCHAIN=local GOWORK=off CGO_ENABLED=0
mkdir -p ../bin ../evidence/replay
go build -o ../bin/pcheck ./cmd/pcheck
echo "built /verif/bin/pcheck"
