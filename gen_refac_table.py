#!/usr/bin/env python3
"""Regenerate the refactoring table of DESIGN.md section 13 from seeded/REFACTOR_RESULTS.json (round 1),
seeded/REFACTOR2_RESULTS.json (round 2, held-out) and seeded/REFACTOR2_BASELINE.json."""
import json, os, re
def load(p): return json.load(open(p)) if os.path.exists(p) else {}
R1=load('/verif/seeded/REFACTOR_RESULTS.json'); R2=load('/verif/seeded/REFACTOR2_RESULTS.json'); B2=load('/verif/seeded/REFACTOR2_BASELINE.json')
def what(name):
    p=f'/verif/seeded/refactor/{name}/notes.md'
    if not os.path.exists(p): return ''
    for l in open(p):
        l=l.strip()
        if l.startswith('#'):
            t=re.sub(r'^#+\s*','',l); t=re.sub(r'^(r\d+|Refactoring \d+)\s*[-—:.]+\s*','',t, flags=re.I)
            return t.replace('|','/')[:120]
    return ''
def alarms(v):
    out=[]
    for p,ls in sorted(v.get('alarms',{}).items()):
        rules=[]
        for l in ls:
            m=re.search(r'rule=(\S+)',l)
            if m and m.group(1) not in rules: rules.append(m.group(1))
        out.append(p+': '+', '.join(rules) if rules else p)
    return '; '.join(out)
rows=['| refactoring | what it does | round | first evaluation | final |','|---|---|---|---|---|']
def key(n):
    a,b=n.rsplit('-',1); return (a, b[0], int(b[1:]))
tot={1:[0,0],2:[0,0]}
for n in sorted(list(R1)+list(R2), key=key):
    v=R1.get(n) or R2.get(n)
    rd=2 if n in R2 else 1
    if 'error' in v:
        rows.append(f'| {n} | {what(n)} | {rd} | | ({v["error"][:50]}) |'); continue
    fin='silent' if not v.get('alarms') else '**alarm** — '+alarms(v)
    first = B2.get(n,'') if rd==2 else 'not recorded'
    rows.append(f'| {n} | {what(n)} | {rd}{" (held-out)" if rd==2 else ""} | {first} | {fin} |')
    tot[rd][1]+=1; tot[rd][0]+= 0 if v.get('alarms') else 1
b2s=sum(1 for v in B2.values() if v=='silent')
txt='\n'.join(rows)+f'\n\nRound 1: {tot[1][0]} of {tot[1][1]} silent (final). Round 2 (held-out): {b2s} of {len(B2)} silent at first evaluation, {tot[2][0]} of {tot[2][1]} silent (final).\n'
D=open('/verif/DESIGN.md').read()
D=re.sub(r'<!-- REFAC-TABLE-BEGIN -->.*?<!-- REFAC-TABLE-END -->','<!-- REFAC-TABLE-BEGIN -->\n'+txt.replace('\\','\\\\')+'<!-- REFAC-TABLE-END -->',D,flags=re.S)
open('/verif/DESIGN.md','w').write(D)
print(txt.splitlines()[-1])
