#!/usr/bin/env python3
"""Regenerate the refactoring table of DESIGN.md section 13 from seeded/REFACTOR_RESULTS.json (round 1),
seeded/REFACTOR2_RESULTS.json (round 2, held-out) and seeded/REFACTOR2_BASELINE.json."""
import json, os, re
def load(p): return json.load(open(p)) if os.path.exists(p) else {}
ROUNDS=[(1,'r','REFACTOR_RESULTS.json',None,''),(2,'q','REFACTOR2_RESULTS.json','REFACTOR2_BASELINE.json',' (held-out)'),
        (3,'s','REFACTOR3_RESULTS.json','REFACTOR3_BASELINE.json',' (held-out 2)'),(4,'u','REFACTOR4_RESULTS.json','REFACTOR4_BASELINE.json',' (held-out 3)'),
        (5,'v','REFACTOR5_RESULTS.json','REFACTOR5_BASELINE.json',' (held-out 4, harder brief)'),
        (6,'w','REFACTOR6_RESULTS.json','REFACTOR6_BASELINE.json',' (held-out 5, brief of rounds 3-4)'),
        (7,'x','REFACTOR7_RESULTS.json','REFACTOR7_BASELINE.json',' (held-out 6, last session: strconv accumulators and binary back ends, aimed at R-OVF / R-EOFKIND)')]
RES={rd:load('/verif/seeded/'+f) for rd,_,f,_,_ in ROUNDS}
BASE={rd:(load('/verif/seeded/'+b) if b else {}) for rd,_,_,b,_ in ROUNDS}
def first_of(rd,n):
    v=BASE[rd].get(n)
    if v is None: return 'not recorded' if rd==1 else ''
    if isinstance(v,str): return v
    return 'alarm' if v.get('alarms') or 'error' in v else 'silent'
def what(name):
    p=f'/verif/seeded/refactor/{name}/notes.md'
    if not os.path.exists(p): return ''
    for l in open(p):
        l=l.strip()
        if l.startswith('#'):
            t=re.sub(r'^#+\s*','',l); t=re.sub(r'^(r\d+|Refactoring \d+)\s*[-—:.]+\s*','',t, flags=re.I)
            return t.replace('|','/')[:120]
    return ''
def alarms(v):
    out=[]
    for p,ls in sorted(v.get('alarms',{}).items()):
        rules=[]
        for l in ls:
            m=re.search(r'rule=(\S+)',l)
            if m and m.group(1) not in rules: rules.append(m.group(1))
        out.append(p+': '+', '.join(rules) if rules else p)
    return '; '.join(out)
rows=['| refactoring | what it does | round | first evaluation | final |','|---|---|---|---|---|']
def key(n):
    a,b=n.rsplit('-',1); return (a, b[0], int(b[1:]))
summ=[]
label={rd:lab for rd,_,_,_,lab in ROUNDS}
for rd,_,_,_,lab in ROUNDS:
    fin_s=fin_n=0
    for n in sorted(RES[rd], key=key):
        v=RES[rd][n]
        if 'error' in v:
            rows.append(f'| {n} | {what(n)} | {rd} | | ({v["error"][:50]}) |'); continue
        fin='silent' if not v.get('alarms') else '**alarm** — '+alarms(v)
        rows.append(f'| {n} | {what(n)} | {rd}{lab} | {first_of(rd,n)} | {fin} |')
        fin_n+=1; fin_s+= 0 if v.get('alarms') else 1
    if not RES[rd]: continue
    if BASE[rd]:
        bs=sum(1 for n in BASE[rd] if first_of(rd,n)=='silent')
        summ.append(f'Round {rd}{lab}: {bs} of {len(BASE[rd])} silent at first evaluation, {fin_s} of {fin_n} silent (final).')
    else:
        summ.append(f'Round {rd}: {fin_s} of {fin_n} silent (final).')
txt='\n'.join(rows)+'\n\n'+' '.join(summ)+'\n'
D=open('/verif/DESIGN.md').read()
D=re.sub(r'<!-- REFAC-TABLE-BEGIN -->.*?<!-- REFAC-TABLE-END -->','<!-- REFAC-TABLE-BEGIN -->\n'+txt.replace('\\','\\\\')+'<!-- REFAC-TABLE-END -->',D,flags=re.S)
open('/verif/DESIGN.md','w').write(D)
print(txt.splitlines()[-1])
