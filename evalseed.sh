#!/bin/bash
# usage: evalseed.sh <patch.diff> [props...]   : apply a seeded change to /repo, run the given (default: all claimed) checks, undo it.
patch=$1; shift
props="$@"
[ -z "$props" ] && props=$(python3 -c "
import json
print(' '.join(c['property_id'] for c in json.load(open('/verif/MANIFEST.json'))['checks']))")
cd /repo || exit 9
git apply "$patch" || { echo "PATCH DOES NOT APPLY"; exit 9; }
caught=""
for p in $props; do
  out=$(/verif/check $p quick 2>&1)
  code=$?
  if [ $code -ne 0 ]; then
    caught="$caught $p"
    echo "== $p exit=$code"
    echo "$out" | grep -E "VIOLATED|UNDECIDED|CHECK-BROKEN" | cut -c1-240 | head -4
  fi
done
git checkout -- . ; git clean -fdq -- . >/dev/null 2>&1
echo "CAUGHT-BY:${caught:- none}"
