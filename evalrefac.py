#!/usr/bin/env python3
"""False-alarm test: run the checks against behaviour-preserving refactorings produced by independent
sub-agents (scratch worktrees /tmp/wtr_<area>/out/r<N>/patch.diff). Every check must stay silent.
Stores each refactoring under /verif/seeded/refactor/<area>-r<N>/ and the outcome in
/verif/seeded/REFACTOR_RESULTS.json.   usage: evalrefac.py <pcheck-binary> <area> [<area> ...]"""
import json, os, subprocess, sys, glob, shutil
PC = sys.argv[1]
AREAS = sys.argv[2:]
ROUND = os.environ.get('ROUND', '1')          # 1: /tmp/wtr_<area>, names <area>-rN;  2 (held-out): /tmp/wtq_<area>, names <area>-qN
SRCPFX = {'1': '/tmp/wtr_', '2': '/tmp/wtq_', '3': '/tmp/wts_', '4': '/tmp/wtu_', '5': '/tmp/wtv_', '6': '/tmp/wtw_', '7': '/tmp/wtx7_'}[ROUND]
TAG = {'1': 'r', '2': 'q', '3': 's', '4': 'u', '5': 'v', '6': 'w', '7': 'x'}[ROUND]
PROPS = {
 'csslex': ['C01','C02','C07','C08','C20'], 'cssparse': ['C01','C08','C15','C20'], 'htmllex': ['C01','C02','C09','C17','C20'],
 'xmllex': ['C01','C02','C11','C17','C20'], 'jsonparse': ['C01','C10','C15','C20'], 'jslex': ['C01','C02','C06','C20'],
 'jsparse': ['C01','C03','C04','C15','C18','C20'], 'jswalk': ['C18','C05','C01','C20'], 'input': ['C12','C01','C02','C15','C20'],
 'stream': ['C13','C20'], 'binary': ['C19','C20'], 'common': ['C16','C17','C14','C15','C09','C08','C20'],
}
def sh(cmd, **kw): return subprocess.run(cmd, shell=True, capture_output=True, text=True, **kw)
resf={'1':'/verif/seeded/REFACTOR_RESULTS.json','2':'/verif/seeded/REFACTOR2_RESULTS.json','3':'/verif/seeded/REFACTOR3_RESULTS.json','4':'/verif/seeded/REFACTOR4_RESULTS.json','5':'/verif/seeded/REFACTOR5_RESULTS.json','6':'/verif/seeded/REFACTOR6_RESULTS.json','7':'/verif/seeded/REFACTOR7_RESULTS.json'}[ROUND]
resf=os.environ.get('OUT',resf)   # OUT: partial results of a parallel run, merged afterwards
res=json.load(open(resf)) if os.path.exists(resf) else {}
# suite outcome per refactoring from an earlier evaluation of the same patch (SKIP_SUITE=1 reuses it)
SUITE_KNOWN={}
for f in glob.glob('/verif/seeded/REFACTOR*_BASELINE.json')+glob.glob('/verif/seeded/REFACTOR*_SUITE.json'):
    try:
        for k,v in json.load(open(f)).items():
            if isinstance(v,dict) and 'suite_passes' in v: SUITE_KNOWN[k]=v['suite_passes']
            elif isinstance(v,bool): SUITE_KNOWN[k]=v
    except Exception: pass
for area in AREAS:
    src=SRCPFX+area
    wt=f'/tmp/evalrf{ROUND}_{area}'; ev=f'/tmp/evalrfv{ROUND}_{area}'
    sh(f'git -C /repo worktree add -f --detach {wt} HEAD')
    os.makedirs(ev+'/evidence/replay', exist_ok=True)
    shutil.copy('/verif/known-findings.txt', ev)
    fresh=sorted(glob.glob(f'{src}/out/r*/patch.diff'))
    # the sub-agents' scratch worktrees are removed after a campaign: the committed copies are then the source
    kept=sorted(glob.glob(f'/verif/seeded/refactor/{area}-{TAG}[0-9]*/patch.diff'))
    for pd in (fresh or kept):
        if fresh:
            n=os.path.basename(os.path.dirname(pd))
            name=f'{area}-{TAG}{n[1:]}'
            dst=f'/verif/seeded/refactor/{name}'
            os.makedirs(dst, exist_ok=True)
            shutil.copy(pd, dst)
            if os.path.exists(os.path.dirname(pd)+'/notes.md'): shutil.copy(os.path.dirname(pd)+'/notes.md', dst)
        else:
            name=os.path.basename(os.path.dirname(pd))
        if os.environ.get('ITEMS') and name not in os.environ['ITEMS'].split(','): continue
        sh(f'git -C {wt} checkout -- . && git -C {wt} clean -fdq')
        a=sh(f'git -C {wt} apply {pd}')
        if a.returncode!=0:
            res[name]={'error':'patch does not apply: '+a.stderr[-200:]}; continue
        env='GOFLAGS=-mod=mod GOPROXY=off GOSUMDB=off GOTOOLCHAIN=local GOWORK=off'
        if os.environ.get('SKIP_SUITE') and name in SUITE_KNOWN:
            suite_ok = SUITE_KNOWN[name]      # the patch is unchanged since the pinned suite was run on it
        else:
            b=sh(f'cd {wt} && {env} go build ./... && {env} go test -vet=off -count=1 $(go list ./... | grep -v /out) 2>&1 | tail -3', timeout=1800)
            suite_ok = b.returncode==0 and 'FAIL' not in b.stdout
        alarms={}
        # one process for all properties of the area: the repository is loaded once and the cursor engine's results are shared
        r=sh(f'{PC} -props {",".join(PROPS[area])} -repo {wt} -verif {ev}', timeout=3600)
        cur=[]; seen=set()
        for l in r.stdout.splitlines():
            if l.startswith('BATCH property='):
                p=l.split('property=')[1].split()[0]; code=int(l.split('exit=')[1]); seen.add(p)
                if code!=0: alarms[p]=cur[:4]
                cur=[]
            elif ('VIOLATED' in l or 'UNDECIDED' in l or 'BROKEN' in l) and not l.startswith('VIOLATION'):
                cur.append(l.strip()[:300])
        for p in PROPS[area]:
            if p not in seen: alarms[p]=(cur[:4] or ['CHECK-BROKEN: no verdict (the analyser ended early)'])
        res[name]={'area':area,'round':int(ROUND),'suite_passes':suite_ok,'checks_run':PROPS[area],'alarms':alarms}
        print(name, 'suite_ok' if suite_ok else 'SUITE-FAILS', 'ALARMS '+json.dumps(alarms)[:600] if alarms else 'silent', flush=True)
        json.dump(res, open(resf,'w'), indent=1, sort_keys=True)
    sh(f'git -C /repo worktree remove --force {wt}')
    shutil.rmtree(ev, ignore_errors=True)
